#!/usr/bin/env python3
"""Property oracles over a recorded trace (the canonical per-step format printed by both the
model driver and the real-code harness).  Used to search for and replay concrete violations on
the real code; never the claim itself (the claims are the Coq theorems)."""
import re

W63 = 1 << 63
W64 = 1 << 64

class Step:
    __slots__ = ("no", "agent", "evs", "snap", "enabled")
    def __init__(self, no, agent, evs):
        self.no, self.agent, self.evs, self.snap, self.enabled = no, agent, evs, None, None

class Snap:
    """S head tailc writers T tags P pins G cur : sids : poss L last signal epoch iepoch K toks F .. W .. C n"""
    def __init__(self, line):
        self.torn = line.strip() == "S torn"
        self.raw = line
        if self.torn or line.startswith("S none"):
            self.torn = True
            return
        f = line.split()
        i = 1
        self.head, self.tailc, self.writers = int(f[1], 16), int(f[2], 16), int(f[3], 16)
        i = f.index("T"); j = f.index("P"); k = f.index("G")
        self.tags = [int(x, 16) for x in f[i + 1:j]]
        self.pins = [int(x, 16) for x in f[j + 1:k]]
        l = f.index("L")
        g = f[k + 1:l]
        self.group = g[0]
        c1 = g.index(":"); c2 = g.index(":", c1 + 1)
        self.sids = [int(x, 16) if not x.startswith("?") else x for x in g[c1 + 1:c2]]
        self.poss = [int(x, 16) for x in g[c2 + 1:]]
        self.last_pos, self.signal, self.epoch, self.iepoch = [int(x, 16) for x in f[l + 1:l + 5]]
        kk = f.index("K"); ff = f.index("F"); ww = f.index("W"); cc = f.index("C")
        self.tokens = f[kk + 1:ff]
        self.tofree = f[ff + 1:ww]
        self.wtf = f[ww + 1:cc]
        self.cparked = int(f[cc + 1], 16)

def parse_trace(lines):
    steps = []
    for ln in lines:
        if not ln:
            continue
        if ln[0].isdigit():
            f = ln.split()
            steps.append(Step(int(f[0]), int(f[1]), f[2:]))
        elif ln.startswith("S") and steps:
            steps[-1].snap = Snap(ln)
        elif ln.startswith("E") and steps:
            steps[-1].enabled = [int(x) for x in ln.split()[1:]]
    return steps

class Call:
    __slots__ = ("agent", "name", "arg", "start", "end", "ret", "born", "ops", "awaits")
    def __init__(self, agent, name, arg, start):
        self.agent, self.name, self.arg, self.start = agent, name, arg, start
        self.end, self.ret, self.born, self.ops, self.awaits = None, None, None, [], 0

class Hist:
    """Everything the oracles need, reconstructed from one trace."""
    def __init__(self, scn, steps, endinfo, cap_n):
        self.scn, self.steps, self.end, self.N = scn, steps, endinfo, cap_n
        self.calls = []              # all calls in start order
        self.open = {}               # agent -> current call
        self.bad_steps = []
        self.log = []                # claim order: (serial, agent, step)
        self.clone_of = {}           # clone serial -> source serial
        self.ids = {}                # serial -> payload id
        self.drops = {}              # serial -> count
        self.deliv = {}              # stream -> list of (pos, serial_delivered, agent, step, call)
        self.stream_start = {0: 0}
        self.stream_parent = {}
        self.kc_f11 = []             # add_stream calls whose publishing CAS came after the parent cursor moved
        self.notifies = []           # (step, notifier, target)
        self.torn_step = None
        self.agent_stream = {1: 0}
        self.max_groups = 0          # largest published group seen (F12)
        self._build()

    def orig(self, ser):
        seen = 0
        while ser in self.clone_of and seen < 1000:
            ser = self.clone_of[ser]; seen += 1
        return ser

    def _build(self):
        pending_add = {}   # agent -> (parent stream, loaded raw, new stream id)
        last_snap = None
        for st in self.steps:
            a = st.agent
            cur = self.open.get(a)
            for ev in st.evs:
                f = ev.split(":")
                k = f[0]
                if k == "start":
                    c = Call(a, f[1], f[2] if len(f) > 2 else None, st.no)
                    self.calls.append(c); self.open[a] = c; cur = c
                elif k == "born":
                    ser = int(f[1], 16); self.ids[ser] = int(f[2], 16)
                    if cur is not None: cur.born = ser
                elif k == "clone":
                    self.clone_of[int(f[1], 16)] = int(f[2], 16)
                    self.ids[int(f[1], 16)] = self.ids.get(int(f[2], 16))
                elif k == "drop":
                    s = int(f[1], 16); self.drops[s] = self.drops.get(s, 0) + 1
                elif k == "bad":
                    self.bad_steps.append(st.no)
                elif k == "ntf":
                    self.notifies.append((st.no, a, int(f[1])))
                elif k == "dealloc" and f[1] == "ring":
                    self.torn_step = st.no
                elif k == "alloc" and f[1].startswith("p") and cur is not None and cur.name in ("addstream", "intomulti", "transform"):
                    # the cursor load that precedes the allocations of add_stream in the same step
                    ns = int(f[1][1:], 16)
                    ld = [e for e in st.evs if e.startswith("op:ld:pos")]
                    if ld:
                        g = ld[0].split(":")
                        pending_add[a] = (int(g[2][3:], 16), int(g[5], 16), ns)
                elif k == "op":
                    kind, loc = f[1], f[2]
                    aa, bb, rr, okf = f[3], f[4], f[5], f[6]
                    if cur is not None:
                        cur.ops.append((st.no, kind, loc, aa, bb, rr, okf))
                    if kind == "await" and cur is not None:
                        cur.awaits += 1
                    if loc == "head" and ((kind == "st") or (kind == "casw" and okf == "1")):
                        # claim by the current send
                        ser = cur.born if cur is not None else None
                        self.log.append((ser, a, st.no))
                    if loc.startswith("pos") and cur is not None and cur.name not in ("addstream",) and \
                       ((kind == "st") or (kind == "casw" and okf == "1")):
                        sid = int(loc[3:], 16)
                        np = int(aa, 16) if kind == "st" else int(bb, 16)
                        p = (np - 1) % W63
                        self.deliv.setdefault(sid, []).append([p, None, a, st.no, cur])
                        self.agent_stream[a] = sid
                    if kind == "pcas" and loc == "readers" and okf == "1" and a in pending_add:
                        parent, raw, ns = pending_add.pop(a)
                        self.stream_start[ns] = raw
                        self.stream_parent[ns] = parent
                        # F11 class: the parent cursor is no longer where the snapshot was taken
                        if last_snap is not None and not last_snap.torn and parent in last_snap.sids:
                            curp = last_snap.poss[last_snap.sids.index(parent)]
                            if curp != raw:
                                self.kc_f11.append((st.no, a, ns, raw, curp))
                    if kind == "pcas" and loc == "readers" and okf == "0" and a in pending_add:
                        pending_add.pop(a)
                elif k == "ret":
                    if cur is not None:
                        r = ":".join(f[1:])
                        if r in ("notready",) and cur.name == "apoll" or (r.startswith("full") and cur.name == "asend"):
                            pass  # the awaiting call goes on
                        else:
                            cur.ret = r; cur.end = st.no
                            if f[1] == "val":
                                ser = int(f[2], 16)
                                # attach the value to the delivery committed by this call
                                for sid, lst in self.deliv.items():
                                    if lst and lst[-1][4] is cur and lst[-1][1] is None:
                                        lst[-1][1] = ser
                            self.open[a] = None
            if st.snap is not None:
                last_snap = st.snap
                if not st.snap.torn:
                    self.max_groups = max(self.max_groups, len(st.snap.sids))

    # ---- helpers
    def accepted(self):
        return [c for c in self.calls if c.name in ("send", "ssend", "asend") and c.ret == "ok"]
    def refused(self):
        return [c for c in self.calls if c.name in ("send", "ssend", "asend") and c.ret and c.ret != "ok"]

def V(prop, what, step, hist):
    return {"property": prop, "what": what, "step": step}

# ---------------------------------------------------------------- oracles
def o_C01(h):
    out = []
    logser = [s for (s, _, _) in h.log]
    acc = {c.born for c in h.accepted()}
    ref = {c.born for c in h.refused()}
    for sid, lst in h.deliv.items():
        start = h.stream_start.get(sid)
        if start is None:
            continue
        exp = start
        for (p, ser, a, stno, call) in lst:
            if p != exp:
                out.append(V("C01", "stream %d delivered position %d where %d was due (gap or duplicate)" % (sid, p, exp), stno, h))
                exp = p
            exp = (exp + 1) % W63
            if ser is None:
                continue
            o = h.orig(ser)
            if p >= len(logser):
                out.append(V("C01", "stream %d delivered position %d that was never claimed" % (sid, p), stno, h))
            elif logser[p] != o:
                out.append(V("C01", "stream %d position %d delivered payload serial %x, the log has %s" % (sid, p, o, logser[p]), stno, h))
            if o in ref:
                out.append(V("C01", "a refused value (serial %x) was delivered" % o, stno, h))
    # an accepted value is claimed exactly once, a send that claimed a slot reports Ok
    claimed = {}
    for (s, a, stno) in h.log:
        claimed[s] = claimed.get(s, 0) + 1
    for c in h.accepted():
        if claimed.get(c.born, 0) != 1:
            out.append(V("C01", "accepted send serial %s claimed %d slots" % (c.born, claimed.get(c.born, 0)), c.end, h))
    for c in h.refused():
        if claimed.get(c.born, 0) != 0:
            out.append(V("C01", "refused send serial %s had claimed a slot" % c.born, c.end, h))
    return out

def o_C02(h):
    out = []
    posof = {}
    for i, (s, a, stno) in enumerate(h.log):
        posof[s] = i
    # producer order and real-time order of accepted sends
    acc = [c for c in h.accepted() if c.born in posof]
    by_agent = {}
    for c in acc:
        by_agent.setdefault(c.agent, []).append(c)
    for a, lst in by_agent.items():
        for x, y in zip(lst, lst[1:]):
            if posof[x.born] > posof[y.born]:
                out.append(V("C02", "producer %d: later send ordered before earlier one" % a, y.end, h))
    for x in acc:
        for y in acc:
            if x.end is not None and x.end < y.start and posof[x.born] > posof[y.born]:
                out.append(V("C02", "send that returned at step %d is ordered after a send that began at step %d" % (x.end, y.start), y.end, h))
    # each consumer receives increasing positions
    per_agent = {}
    for sid, lst in h.deliv.items():
        for (p, ser, a, stno, call) in lst:
            per_agent.setdefault((a, sid), []).append((stno, p))
    for (a, sid), lst in per_agent.items():
        lst.sort()
        for (s1, p1), (s2, p2) in zip(lst, lst[1:]):
            if p2 <= p1:
                out.append(V("C02", "consumer %d received position %d after %d" % (a, p2, p1), s2, h))
    return out

def o_C03(h):
    out = []
    for st in h.steps:
        sn = st.snap
        if sn is None or sn.torn or not sn.sids:
            continue
        for sid, p in zip(sn.sids, sn.poss):
            d = (sn.head - p) % W63
            if d > h.N and d < (1 << 62):
                out.append(V("C03", "%d accepted values unconsumed by stream %s (capacity %d)" % (d, sid, h.N), st.no, h))
                return out
    return out

def o_C04(h):
    return [V("C04", "payload self-check failed (incomplete, overwritten or destroyed value observed)", s, h) for s in h.bad_steps[:1]]

def o_C05(h):
    out = []
    for s, n in h.drops.items():
        if n > 1:
            out.append(V("C05", "payload serial %x dropped %d times" % (s, n), h.torn_step or 0, h))
    if h.torn_step is not None:
        for s in h.ids:
            if h.drops.get(s, 0) == 0:
                out.append(V("C05", "payload serial %x never dropped although the queue is gone" % s, h.torn_step, h))
    if h.bad_steps:
        out.append(V("C05", "payload used after destruction / garbage dropped", h.bad_steps[0], h))
    return out

def o_C07(h):
    out = []
    ended = {}
    for c in h.calls:
        if c.name in ("recv", "brecv", "view", "bview", "poll", "apoll") and c.ret is not None:
            sid = h.agent_stream.get(c.agent)
            # stream of the call: the cursor it looked at
            for (_, kind, loc, aa, bb, rr, okf) in c.ops:
                if loc.startswith("pos"):
                    sid = int(loc[3:], 16)
            if c.ret == "discon":
                # writers must be zero and everything delivered
                snap = None
                for st in h.steps:
                    if st.no == c.end:
                        snap = st.snap
                if snap is not None and not snap.torn:
                    if snap.writers != 0:
                        out.append(V("C07", "end of stream reported while %d sender(s) alive" % snap.writers, c.end, h))
                    if sid in snap.sids:
                        p = snap.poss[snap.sids.index(sid)]
                        if p != snap.head:
                            out.append(V("C07", "end of stream reported at position %d while %d values were accepted" % (p, snap.head), c.end, h))
                ended[sid] = c.end
            elif sid in ended and c.start > ended[sid] and c.ret != "discon":
                out.append(V("C07", "stream %s reported the end at step %d and then %s" % (sid, ended[sid], c.ret), c.end, h))
    return out

def o_C13(h):
    """after the last receiver's drop has returned no send succeeds, and it reports Disconnected"""
    out = []
    # receivers: calls named drop/unsub by agents that are receivers; the last one to return
    recv_agents = set(h.agent_stream)
    for c in h.calls:
        if c.name in ("recv", "brecv", "view", "bview", "poll", "apoll", "addstream", "intosingle", "intomulti", "transform", "unsub"):
            recv_agents.add(c.agent)
    send_agents = {c.agent for c in h.calls if c.name in ("send", "ssend", "asend", "pollc")}
    created = {}
    for c in h.calls:
        if c.name in ("clone", "addstream") and c.arg is not None:
            created[int(c.arg)] = c.agent
    def is_recv(a):
        seen = 0
        while a not in (0, 1) and a in created and seen < 100:
            a = created[a]; seen += 1
        return a == 1
    all_agents = set(h.scn.scripts) if h.scn is not None else {c.agent for c in h.calls}
    recvs = {a for a in all_agents if is_recv(a)}
    # born receivers only
    born = {0, 1} | {int(c.arg) for c in h.calls if c.name in ("clone", "addstream") and c.end is not None}
    recvs &= born
    gone = {}
    for c in h.calls:
        if c.agent in recvs and c.name in ("drop", "unsub") and c.end is not None:
            gone[c.agent] = c.end
    if recvs and all(a in gone for a in recvs):
        t = max(gone.values())
        for c in h.calls:
            if c.name in ("send", "ssend", "asend") and c.start > t and c.ret is not None:
                if not c.ret.startswith("disc"):
                    out.append(V("C13", "send started after every receiver was dropped returned %s" % c.ret, c.end, h))
    return out

ORACLES = {"C01": o_C01, "C02": o_C02, "C03": o_C03, "C04": o_C04, "C05": o_C05, "C07": o_C07, "C13": o_C13}
