#!/usr/bin/env python3
"""Property oracles over a recorded trace (the canonical per-step format printed by both the
model driver and the real-code harness).  Used to search for and replay concrete violations on
the real code; never the claim itself (the claims are the Coq theorems)."""
import re

W63 = 1 << 63
W64 = 1 << 64

class Step:
    __slots__ = ("no", "agent", "evs", "snap", "enabled")
    def __init__(self, no, agent, evs):
        self.no, self.agent, self.evs, self.snap, self.enabled = no, agent, evs, None, None

class Snap:
    """S head tailc writers T tags P pins G cur : sids : poss L last signal epoch iepoch K toks F .. W .. C n"""
    def __init__(self, line):
        self.torn = line.strip() == "S torn"
        self.raw = line
        if self.torn or line.startswith("S none"):
            self.torn = True
            return
        f = line.split()
        i = 1
        self.head, self.tailc, self.writers = int(f[1], 16), int(f[2], 16), int(f[3], 16)
        i = f.index("T"); j = f.index("P"); k = f.index("G")
        self.tags = [int(x, 16) for x in f[i + 1:j]]
        self.pins = [int(x, 16) for x in f[j + 1:k]]
        l = f.index("L")
        g = f[k + 1:l]
        self.group = g[0]
        c1 = g.index(":"); c2 = g.index(":", c1 + 1)
        self.sids = [int(x, 16) if not x.startswith("?") else x for x in g[c1 + 1:c2]]
        self.poss = [int(x, 16) for x in g[c2 + 1:]]
        self.last_pos, self.signal, self.epoch, self.iepoch = [int(x, 16) for x in f[l + 1:l + 5]]
        kk = f.index("K"); ff = f.index("F"); ww = f.index("W"); cc = f.index("C")
        self.tokens = f[kk + 1:ff]
        self.tofree = f[ff + 1:ww]
        self.wtf = f[ww + 1:cc]
        self.cparked = int(f[cc + 1], 16)

def parse_trace(lines):
    steps = []
    for ln in lines:
        if not ln:
            continue
        if ln[0].isdigit():
            f = ln.split()
            steps.append(Step(int(f[0]), int(f[1]), f[2:]))
        elif ln.startswith("S") and steps:
            steps[-1].snap = Snap(ln)
        elif ln.startswith("E") and steps:
            steps[-1].enabled = [int(x) for x in ln.split()[1:]]
    return steps

class Call:
    __slots__ = ("agent", "name", "arg", "start", "end", "ret", "born", "ops", "awaits")
    def __init__(self, agent, name, arg, start):
        self.agent, self.name, self.arg, self.start = agent, name, arg, start
        self.end, self.ret, self.born, self.ops, self.awaits = None, None, None, [], 0

class Hist:
    """Everything the oracles need, reconstructed from one trace."""
    def __init__(self, scn, steps, endinfo, cap_n):
        self.scn, self.steps, self.end, self.N = scn, steps, endinfo, cap_n
        self.calls = []              # all calls in start order
        self.open = {}               # agent -> current call
        self.bad_steps = []
        self.log = []                # claim order: (serial, agent, step)
        self.clone_of = {}           # clone serial -> source serial
        self.ids = {}                # serial -> payload id
        self.drops = {}              # serial -> count
        self.deliv = {}              # stream -> list of (pos, serial_delivered, agent, step, call)
        self.stream_start = {0: 0}
        self.stream_parent = {}
        self.kc_f11 = []             # add_stream calls whose publishing CAS came after the parent cursor moved
        self.notifies = []           # (step, notifier, target)
        self.torn_step = None
        self.agent_stream = {1: 0}
        self.max_groups = 0          # largest published group seen (F12)
        self._build()

    def orig(self, ser):
        seen = 0
        while ser in self.clone_of and seen < 1000:
            ser = self.clone_of[ser]; seen += 1
        return ser

    def _build(self):
        pending_add = {}   # agent -> (parent stream, loaded raw, new stream id)
        last_snap = None
        for st in self.steps:
            a = st.agent
            cur = self.open.get(a)
            for ev in st.evs:
                f = ev.split(":")
                k = f[0]
                if k == "start":
                    c = Call(a, f[1], f[2] if len(f) > 2 else None, st.no)
                    self.calls.append(c); self.open[a] = c; cur = c
                elif k == "born":
                    ser = int(f[1], 16); self.ids[ser] = int(f[2], 16)
                    if cur is not None: cur.born = ser
                elif k == "clone":
                    self.clone_of[int(f[1], 16)] = int(f[2], 16)
                    self.ids[int(f[1], 16)] = self.ids.get(int(f[2], 16))
                elif k == "drop":
                    s = int(f[1], 16); self.drops[s] = self.drops.get(s, 0) + 1
                elif k == "bad":
                    self.bad_steps.append(st.no)
                elif k == "ntf":
                    self.notifies.append((st.no, a, int(f[1])))
                elif k == "dealloc" and f[1] == "ring":
                    self.torn_step = st.no
                elif k == "alloc" and f[1].startswith("p") and cur is not None and cur.name in ("addstream", "intomulti", "transform"):
                    # the cursor load that precedes the allocations of add_stream in the same step
                    ns = int(f[1][1:], 16)
                    ld = [e for e in st.evs if e.startswith("op:ld:pos")]
                    if ld:
                        g = ld[0].split(":")
                        pending_add[a] = (int(g[2][3:], 16), int(g[5], 16), ns)
                elif k == "op":
                    kind, loc = f[1], f[2]
                    aa, bb, rr, okf = f[3], f[4], f[5], f[6]
                    if cur is not None:
                        cur.ops.append((st.no, kind, loc, aa, bb, rr, okf))
                    if kind == "await" and cur is not None:
                        cur.awaits += 1
                    if loc == "head" and ((kind == "st") or (kind == "casw" and okf == "1")):
                        # claim by the current send
                        ser = cur.born if cur is not None else None
                        self.log.append((ser, a, st.no))
                    if loc.startswith("pos") and cur is not None and cur.name not in ("addstream",) and \
                       ((kind == "st") or (kind == "casw" and okf == "1")):
                        sid = int(loc[3:], 16)
                        np = int(aa, 16) if kind == "st" else int(bb, 16)
                        p = (np - 1) % W63
                        self.deliv.setdefault(sid, []).append([p, None, a, st.no, cur])
                        self.agent_stream[a] = sid
                    if kind == "pcas" and loc == "readers" and okf == "1" and a in pending_add:
                        parent, raw, ns = pending_add.pop(a)
                        self.stream_start[ns] = raw
                        self.stream_parent[ns] = parent
                        # F11 class: the parent cursor is no longer where the snapshot was taken
                        if last_snap is not None and not last_snap.torn and parent in last_snap.sids:
                            curp = last_snap.poss[last_snap.sids.index(parent)]
                            if curp != raw:
                                self.kc_f11.append((st.no, a, ns, raw, curp))
                    if kind == "pcas" and loc == "readers" and okf == "0" and a in pending_add:
                        pending_add.pop(a)
                elif k == "ret":
                    if cur is not None:
                        r = ":".join(f[1:])
                        if r in ("notready",) and cur.name == "apoll" or (r.startswith("full") and cur.name == "asend"):
                            pass  # the awaiting call goes on
                        else:
                            cur.ret = r; cur.end = st.no
                            if f[1] == "val":
                                ser = int(f[2], 16)
                                # attach the value to the delivery committed by this call
                                for sid, lst in self.deliv.items():
                                    if lst and lst[-1][4] is cur and lst[-1][1] is None:
                                        lst[-1][1] = ser
                            self.open[a] = None
            if st.snap is not None:
                last_snap = st.snap
                if not st.snap.torn:
                    self.max_groups = max(self.max_groups, len(st.snap.sids))

    # ---- helpers
    def accepted(self):
        return [c for c in self.calls if c.name in ("send", "ssend", "asend") and c.ret == "ok"]
    def refused(self):
        return [c for c in self.calls if c.name in ("send", "ssend", "asend") and c.ret and c.ret != "ok"]

def V(prop, what, step, hist):
    return {"property": prop, "what": what, "step": step}

# ---------------------------------------------------------------- oracles
def o_C01(h):
    out = []
    logser = [s for (s, _, _) in h.log]
    acc = {c.born for c in h.accepted()}
    ref = {c.born for c in h.refused()}
    for sid, lst in h.deliv.items():
        start = h.stream_start.get(sid)
        if start is None:
            continue
        exp = start
        for (p, ser, a, stno, call) in lst:
            if p != exp:
                out.append(V("C01", "stream %d delivered position %d where %d was due (gap or duplicate)" % (sid, p, exp), stno, h))
                exp = p
            exp = (exp + 1) % W63
            if ser is None:
                continue
            o = h.orig(ser)
            if p >= len(logser):
                out.append(V("C01", "stream %d delivered position %d that was never claimed" % (sid, p), stno, h))
            elif logser[p] != o:
                out.append(V("C01", "stream %d position %d delivered payload serial %x, the log has %s" % (sid, p, o, logser[p]), stno, h))
            if o in ref:
                out.append(V("C01", "a refused value (serial %x) was delivered" % o, stno, h))
    # an accepted value is claimed exactly once, a send that claimed a slot reports Ok
    claimed = {}
    for (s, a, stno) in h.log:
        claimed[s] = claimed.get(s, 0) + 1
    for c in h.accepted():
        if claimed.get(c.born, 0) != 1:
            out.append(V("C01", "accepted send serial %s claimed %d slots" % (c.born, claimed.get(c.born, 0)), c.end, h))
    for c in h.refused():
        if claimed.get(c.born, 0) != 0:
            out.append(V("C01", "refused send serial %s had claimed a slot" % c.born, c.end, h))
    return out

def o_C02(h):
    out = []
    posof = {}
    for i, (s, a, stno) in enumerate(h.log):
        posof[s] = i
    # producer order and real-time order of accepted sends
    acc = [c for c in h.accepted() if c.born in posof]
    by_agent = {}
    for c in acc:
        by_agent.setdefault(c.agent, []).append(c)
    for a, lst in by_agent.items():
        for x, y in zip(lst, lst[1:]):
            if posof[x.born] > posof[y.born]:
                out.append(V("C02", "producer %d: later send ordered before earlier one" % a, y.end, h))
    for x in acc:
        for y in acc:
            if x.end is not None and x.end < y.start and posof[x.born] > posof[y.born]:
                out.append(V("C02", "send that returned at step %d is ordered after a send that began at step %d" % (x.end, y.start), y.end, h))
    # each consumer receives increasing positions
    per_agent = {}
    for sid, lst in h.deliv.items():
        for (p, ser, a, stno, call) in lst:
            per_agent.setdefault((a, sid), []).append((stno, p))
    for (a, sid), lst in per_agent.items():
        lst.sort()
        for (s1, p1), (s2, p2) in zip(lst, lst[1:]):
            if p2 <= p1:
                out.append(V("C02", "consumer %d received position %d after %d" % (a, p2, p1), s2, h))
    return out

def o_C03(h):
    out = []
    for st in h.steps:
        sn = st.snap
        if sn is None or sn.torn or not sn.sids:
            continue
        for sid, p in zip(sn.sids, sn.poss):
            d = (sn.head - p) % W63
            if d > h.N and d < (1 << 62):
                out.append(V("C03", "%d accepted values unconsumed by stream %s (capacity %d)" % (d, sid, h.N), st.no, h))
                return out
    return out

def o_C04(h):
    return [V("C04", "payload self-check failed (incomplete, overwritten or destroyed value observed)", s, h) for s in h.bad_steps[:1]]

def o_C05(h):
    out = []
    for s, n in h.drops.items():
        if n > 1:
            out.append(V("C05", "payload serial %x dropped %d times" % (s, n), h.torn_step or 0, h))
    if h.torn_step is not None:
        for s in h.ids:
            if h.drops.get(s, 0) == 0:
                out.append(V("C05", "payload serial %x never dropped although the queue is gone" % s, h.torn_step, h))
    if h.bad_steps:
        out.append(V("C05", "payload used after destruction / garbage dropped", h.bad_steps[0], h))
    return out

def o_C07(h):
    out = []
    ended = {}
    for c in h.calls:
        if c.name in ("recv", "brecv", "view", "bview", "poll", "apoll") and c.ret is not None:
            sid = h.agent_stream.get(c.agent)
            # stream of the call: the cursor it looked at
            for (_, kind, loc, aa, bb, rr, okf) in c.ops:
                if loc.startswith("pos"):
                    sid = int(loc[3:], 16)
            if c.ret == "discon":
                # writers must be zero and everything delivered
                snap = None
                for st in h.steps:
                    if st.no == c.end:
                        snap = st.snap
                if snap is not None and not snap.torn:
                    if snap.writers != 0:
                        out.append(V("C07", "end of stream reported while %d sender(s) alive" % snap.writers, c.end, h))
                    if sid in snap.sids:
                        p = snap.poss[snap.sids.index(sid)]
                        if p != snap.head:
                            out.append(V("C07", "end of stream reported at position %d while %d values were accepted" % (p, snap.head), c.end, h))
                ended[sid] = c.end
            elif sid in ended and c.start > ended[sid] and c.ret != "discon":
                out.append(V("C07", "stream %s reported the end at step %d and then %s" % (sid, ended[sid], c.ret), c.end, h))
    return out

def o_C13(h):
    """after the last receiver's drop has returned no send succeeds, and it reports Disconnected"""
    out = []
    # receivers: calls named drop/unsub by agents that are receivers; the last one to return
    recv_agents = set(h.agent_stream)
    for c in h.calls:
        if c.name in ("recv", "brecv", "view", "bview", "poll", "apoll", "addstream", "intosingle", "intomulti", "transform", "unsub"):
            recv_agents.add(c.agent)
    send_agents = {c.agent for c in h.calls if c.name in ("send", "ssend", "asend", "pollc")}
    created = {}
    for c in h.calls:
        if c.name in ("clone", "addstream") and c.arg is not None:
            created[int(c.arg)] = c.agent
    def is_recv(a):
        seen = 0
        while a not in (0, 1) and a in created and seen < 100:
            a = created[a]; seen += 1
        return a == 1
    all_agents = set(h.scn.scripts) if h.scn is not None else {c.agent for c in h.calls}
    recvs = {a for a in all_agents if is_recv(a)}
    # born receivers only
    born = {0, 1} | {int(c.arg) for c in h.calls if c.name in ("clone", "addstream") and c.end is not None}
    recvs &= born
    gone = {}
    for c in h.calls:
        if c.agent in recvs and c.name in ("drop", "unsub") and c.end is not None:
            gone[c.agent] = c.end
    if recvs and all(a in gone for a in recvs):
        t = max(gone.values())
        for c in h.calls:
            if c.name in ("send", "ssend", "asend") and c.start > t and c.ret is not None:
                if not c.ret.startswith("disc"):
                    out.append(V("C13", "send started after every receiver was dropped returned %s" % c.ret, c.end, h))
    return out

ORACLES = {"C01": o_C01, "C02": o_C02, "C03": o_C03, "C04": o_C04, "C05": o_C05, "C07": o_C07, "C13": o_C13}

# =====================================================================================
# population tracking, reference specification and the remaining oracles

def track_population(h):
    """agent -> (kind 'S'|'R', stream) over time; returns events list and final maps.
    Adds to h: h.pop_events = [(step, what, agent, stream)], h.agent_kind."""
    kind = {0: "S", 1: "R"}
    stream = {1: 0}
    alive = {0: True, 1: True}
    events = []
    new_stream_of_call = {}
    # stream created inside a call: last alloc p<ns> followed by a successful pcas in that call
    for c in h.calls:
        ns, okc = None, False
        for (stno, kindop, loc, aa, bb, rr, okf) in c.ops:
            if kindop == "pcas" and loc == "readers" and okf == "1":
                okc = True
        if c.name in ("addstream", "intomulti", "transform") and okc:
            # find ns from the steps of the call
            for st in h.steps:
                if st.agent == c.agent and c.start <= st.no <= (c.end or 10**9):
                    for ev in st.evs:
                        if ev.startswith("alloc:p"):
                            ns = int(ev[7:], 16)
            new_stream_of_call[id(c)] = ns
    h.new_stream_of_call = new_stream_of_call
    for c in sorted([c for c in h.calls if c.end is not None], key=lambda c: c.end):
        a = c.agent
        if c.name == "clone":
            b = int(c.arg); kind[b] = kind.get(a, "S"); alive[b] = True
            if kind[b] == "R":
                stream[b] = stream.get(a)
            events.append((c.end, "born", b, stream.get(b)))
        elif c.name == "addstream":
            b = int(c.arg); kind[b] = "R"; alive[b] = True
            stream[b] = new_stream_of_call.get(id(c))
            events.append((c.end, "born", b, stream[b]))
        elif c.name in ("intomulti", "transform") and id(c) in new_stream_of_call and new_stream_of_call[id(c)] is not None:
            events.append((c.end, "gone", a, stream.get(a)))
            stream[a] = new_stream_of_call[id(c)]
            events.append((c.end, "born", a, stream[a]))
        elif c.name in ("drop", "unsub"):
            alive[a] = False
            events.append((c.end, "gone", a, stream.get(a)))
    h.agent_kind, h.agent_stream_final, h.agent_alive, h.pop_events = kind, stream, alive, events
    return h

def handles_at(h, step):
    """(senders alive, {stream: handles}) after all calls that returned by `step`"""
    senders, hs = 1, {0: 1}
    kind = {0: "S", 1: "R"}
    strm = {1: 0}
    for c in sorted([c for c in h.calls if c.end is not None and c.end <= step], key=lambda c: c.end):
        a = c.agent
        if c.name == "clone":
            b = int(c.arg); kind[b] = kind.get(a, "S")
            if kind[b] == "S":
                senders += 1
            else:
                strm[b] = strm.get(a); hs[strm[b]] = hs.get(strm[b], 0) + 1
        elif c.name == "addstream":
            b = int(c.arg); kind[b] = "R"; ns = h.new_stream_of_call.get(id(c)); strm[b] = ns; hs[ns] = 1
        elif c.name in ("intomulti", "transform") and h.new_stream_of_call.get(id(c)) is not None:
            old = strm.get(a); hs[old] = hs.get(old, 1) - 1
            ns = h.new_stream_of_call[id(c)]; strm[a] = ns; hs[ns] = 1
        elif c.name in ("drop", "unsub"):
            if kind.get(a) == "S":
                senders -= 1
            else:
                s = strm.get(a); hs[s] = hs.get(s, 1) - 1
    return senders, {s: n for s, n in hs.items() if n > 0}, kind, strm

def snap_at(h, step):
    last = None
    for st in h.steps:
        if st.no > step:
            break
        if st.snap is not None:
            last = st.snap
    return last

def seq_phase_start(h):
    """first step after which every call ran alone to completion (after a barrier): detected as the
    suffix of the trace in which calls never overlap"""
    # a call overlaps another if some other agent takes a step between its start and end
    calls = [c for c in h.calls if c.end is not None]
    start = None
    for c in reversed(h.calls):
        if c.end is None:
            break
        alone = all(st.agent == c.agent for st in h.steps if c.start <= st.no <= c.end)
        if not alone:
            break
        start = c.start
    return start

def spec_check(h, prop, from_step=None, allow_spurious_overlap=False):
    """Compare every call that ran alone (no step of another agent between its start and its return,
    and no other call in flight) with the reference specification computed from the state at its start."""
    out = []
    track_population(h)
    logser = [s for (s, _, _) in h.log]
    inflight = []
    for c in h.calls:
        if from_step is not None and c.start < from_step:
            continue
        if c.end is None:
            continue
        # alone and nothing else in flight at its start
        if any(st.agent != c.agent for st in h.steps if c.start <= st.no <= c.end):
            continue
        if any(o is not c and o.start < c.start and (o.end is None or o.end > c.start) for o in h.calls):
            continue
        sn = snap_at(h, c.start - 1) if c.start > 1 else None
        if sn is None or sn.torn:
            if c.start > 1:
                continue
            head, poss = 0, {0: 0}
            writers = 1
        else:
            head, poss, writers = sn.head, dict(zip(sn.sids, sn.poss)), sn.writers
        senders, hs, kind, strm = handles_at(h, c.start - 1)
        N = h.N
        a = c.agent
        exp = None
        if c.name in ("send", "ssend", "asend"):
            if not poss:
                exp = "disc"
            elif (head - min(poss.values())) % W63 < N:
                exp = "ok"
            else:
                exp = "full"
            got = (c.ret or "").split(":")[0]
            if c.name == "asend" and exp == "full":
                continue
        elif c.name in ("recv", "view", "poll", "brecv", "bview", "apoll"):
            s = strm.get(a)
            if s not in poss:
                continue
            p = poss[s]
            if p != head:
                exp = "val"
            elif writers > 0:
                exp = {"recv": "empty", "view": "empty", "poll": "notready"}.get(c.name)
                if exp is None:
                    continue      # a blocking call that (correctly) cannot return
            else:
                exp = "discon"
            got = (c.ret or "").split(":")[0]
            if exp == "val" and got == "val":
                ser = h.orig(int(c.ret.split(":")[1], 16))
                if p < len(logser) and logser[p] != ser:
                    out.append(V(prop, "%s by agent %d returned payload serial %x, the reference model expects position %d = serial %s" % (c.name, a, ser, p, logser[p]), c.end, h))
        elif c.name == "unsub":
            s = strm.get(a)
            got = c.ret
            if kind.get(a) == "R" and got is not None and got.startswith("bool"):
                exp = "bool:%d" % (1 if hs.get(s, 0) == 1 else 0)
        elif c.name == "intosingle":
            s = strm.get(a)
            got = c.ret
            exp = "bool:%d" % (1 if hs.get(s, 0) == 1 else 0)
        elif c.name in ("clone", "addstream", "drop", "intomulti", "transform"):
            exp, got = "unit", c.ret
        elif c.name == "pollc":
            exp, got = "ok", c.ret
        if exp is not None and got != exp:
            out.append(V(prop, "%s by agent %d returned %s, the reference model says %s" % (c.name, a, c.ret, exp), c.end, h))
        if c.ret == "panic":
            out.append(V(prop, "%s by agent %d panicked" % (c.name, a), c.end, h))
    return out

def o_C09(h):
    return spec_check(h, "C09")

def o_C06(h):
    out = spec_check(h, "C06")
    # a refusal / Empty that the reference model would not give needs an overlapping operation: calls that
    # ran alone were compared above; here: the drain/refill counts of the sequential phase
    return out

def stuck_agents(h):
    """agents that are inside a call when the run ends"""
    return [(a, c) for a, c in h.open.items() if c is not None and c.end is None]

def quiescent_tail(h, k=300):
    """the shared state did not change during the last k steps"""
    snaps = [st.snap.raw for st in h.steps[-k:] if st.snap is not None]
    return len(h.steps) >= k and len(set(snaps)) == 1

def deliverable(h, sn, stream):
    if sn is None or sn.torn or stream not in sn.sids:
        return False
    p = sn.poss[sn.sids.index(stream)]
    if p == sn.head:
        return False
    return sn.tags[p % h.N] == p

def o_C08(h):
    out = []
    oc = h.end.get("outcome")
    if oc not in ("limit", "deadlock"):
        return out
    track_population(h)
    sn = snap_at(h, 10**9)
    others_done = all(c.name in ("brecv", "bview") for a, c in stuck_agents(h))
    for a, c in stuck_agents(h):
        if c.name not in ("brecv", "bview"):
            continue
        s = h.agent_stream_final.get(a, h.agent_stream.get(a))
        if sn is None or sn.torn:
            continue
        can = deliverable(h, sn, s) or sn.writers == 0
        if can and (oc == "deadlock" or (quiescent_tail(h) and others_done)):
            out.append(V("C08", "consumer %d stays blocked in %s although %s" % (a, c.name, "a value is available on its stream" if sn.writers else "the last sender is gone"), h.steps[-1].no, h))
    return out

def last_refusal_at_pin(c):
    """did the last send attempt of the call end at the pin (refcount) test?"""
    last = None
    for (stno, kind, loc, aa, bb, rr, okf) in c.ops:
        if kind == "await":
            continue
        last = (kind, loc, rr)
    # the very last operations are the park (lock pp ...); look for the last load before them
    seq = [(k, l, r) for (_, k, l, a_, b_, r, o_) in c.ops if k == "ld"]
    return bool(seq) and seq[-1][1].startswith("pin") and seq[-1][2] != "0"

def o_C14(h):
    out = []
    oc = h.end.get("outcome")
    if oc not in ("deadlock", "done", "limit"):
        return out
    track_population(h)
    sn = snap_at(h, 10**9)
    if sn is None or sn.torn:
        return out
    stuck = stuck_agents(h)
    # only meaningful when nobody can run any more
    last_en = h.steps[-1].enabled if h.steps else []
    if last_en:
        return out
    for a, c in stuck:
        if c.name == "apoll":
            s = h.agent_stream_final.get(a, h.agent_stream.get(a))
            if deliverable(h, sn, s) or sn.writers == 0:
                out.append(V("C14", "stream task %d parked without a notification although %s" % (a, "a value is available" if sn.writers else "the last sender is gone"), h.steps[-1].no, h))
        elif c.name == "asend":
            space = (not sn.sids) or ((sn.head - min(sn.poss)) % W63 < h.N)
            if space and all(p == 0 for p in sn.pins):
                v = V("C14", "sink task %d parked without a notification although %s" % (a, "a send would be accepted" if sn.sids else "no receiver is left"), h.steps[-1].no, h)
                v["pin_refusal"] = last_refusal_at_pin(c)
                out.append(v)
    return out

def o_C11(h):
    out = []
    track_population(h)
    # unsubscribe reports true exactly when its own decrement took the count from 1 to 0
    for c in h.calls:
        if c.name == "unsub" and c.ret is not None and c.ret.startswith("bool"):
            dec = [r for (_, k, l, a_, b_, r, o_) in c.ops if k == "fsub" and l.startswith("cons")]
            if dec:
                was_last = int(dec[0], 16) == 1
                if (c.ret == "bool:1") != was_last:
                    out.append(V("C11", "unsubscribe by agent %d returned %s although its decrement found %s handle(s)" % (c.agent, c.ret, dec[0]), c.end, h))
    # a stream whose last handle is gone is no longer registered once that call has returned
    gone_at = {}
    senders, hs, kind, strm = handles_at(h, 10**9)
    for (stno, what, a, s) in h.pop_events:
        if what == "gone" and s is not None:
            _, hs_t, _, _ = handles_at(h, stno)
            if s not in hs_t:
                gone_at[s] = stno
    for st in h.steps:
        if st.snap is None or st.snap.torn:
            continue
        for s, t in gone_at.items():
            if st.no > t and s in st.snap.sids:
                out.append(V("C11", "stream %s is still registered (and limits senders) after the call that removed its last handle returned at step %d" % (s, t), st.no, h))
                return out
    # two handles of one stream both told 'not last' and nobody was: covered by the first rule; both 'last': ditto
    return out

def o_C16(h):
    return [V("C16", "use of internal bookkeeping memory after it was freed, or a double / invalid free", s, h) for s in h.bad_steps[:1]]

def token_owners(h):
    """step -> {agent: token} for live handles (a handle owns its token until its drop/unsubscribe returns)"""
    own = {0: "0", 1: "1"}
    by_step = {}
    callat = {}
    for c in h.calls:
        callat.setdefault(c.start, []).append(c)
    cur = {}
    for st in h.steps:
        for c in callat.get(st.no, []):
            cur[c.agent] = c
        c = cur.get(st.agent)
        for ev in st.evs:
            if ev.startswith("alloc:t") and c is not None:
                t = ev[7:]
                if c.name in ("clone", "addstream") and c.arg is not None:
                    own[int(c.arg)] = t
                elif c.name in ("intosingle", "intomulti", "transform"):
                    own[c.agent] = t
        if c is not None and c.end == st.no and c.name in ("drop", "unsub"):
            own.pop(c.agent, None)
        by_step[st.no] = dict(own)
    return by_step

def o_C17(h):
    out = []
    owners = token_owners(h)
    backlog = 0     # retired objects that piled up while a live handle had not yet acknowledged the epoch
    for st in h.steps:
        sn = st.snap
        if sn is not None and not sn.torn:
            retired = len(sn.tofree) + len(sn.wtf)
            ep = {}
            for t in sn.tokens:
                k, e = t.split(":")
                ep[k] = int(e, 16)
            own = owners.get(st.no, {})
            # a live handle whose announcement is behind the epoch legitimately holds reclamation back
            # (it has not operated since the bump); a token that belongs to no live handle does not
            excused = any(ep.get(t) is not None and ep[t] != sn.epoch for t in own.values())
            if excused:
                backlog = max(backlog, retired)
            elif retired > backlog + 21 + 21 + 6 * (len(sn.tokens) + 2):
                out.append(V("C17", "%d retired internal objects are waiting to be freed although every live handle has acknowledged the current epoch (the queue holds %d streams, %d handles): memory grows with churn" % (retired, len(sn.sids), len(sn.tokens)), st.no, h))
                return out
    if h.end.get("torn") == "1":
        lv = h.end.get("live", "")
        if lv not in ("", "-"):
            out.append(V("C17", "internal memory still allocated after the last handle was dropped: %s" % lv, h.steps[-1].no if h.steps else 0, h))
    return out

def o_C15(h):
    out = []
    for c in h.calls:
        if c.name in ("ssend", "asend"):
            # NotReady hands back the identical message and nothing was enqueued
            claimed = any(s == c.born for (s, _, _) in h.log)
            if c.ret is not None and c.ret.startswith("full"):
                ser = int(c.ret.split(":")[1], 16)
                if ser != c.born:
                    out.append(V("C15", "start_send returned NotReady with a different message", c.end, h))
                if claimed:
                    out.append(V("C15", "start_send returned NotReady although the value was enqueued", c.end, h))
            if c.ret == "ok" and not claimed:
                out.append(V("C15", "start_send returned Ready although nothing was enqueued", c.end, h))
        if c.ret == "panic":
            out.append(V("C15", "%s by agent %d panicked" % (c.name, c.agent), c.end, h))
    # poll / start_send never wait inside the call: bounded own steps, no condvar wait, returns
    for c in h.calls:
        if c.name in ("poll", "ssend", "apoll", "asend"):
            if any(k in ("cvwait",) for (_, k, l, a_, b_, r, o_) in c.ops):
                out.append(V("C15", "%s blocked on a condition variable inside the call" % c.name, c.start, h))
    for a, c in stuck_agents(h):
        if c.name in ("poll", "ssend"):
            own = sum(1 for st in h.steps if st.agent == a and st.no >= c.start)
            # the call spins a configured number of times (each try is a whole try_send/try_recv) before it parks
            spins = (h.scn.sf + h.scn.sy) if h.scn is not None else 0
            if own > 600 + 30 * spins and h.end.get("outcome") == "limit":
                out.append(V("C15", "%s by agent %d did not return after %d of its own steps" % (c.name, a, own), h.steps[-1].no, h))
    return out

def o_C18(h):
    """a try operation that runs alone (every other thread frozen) returns within a bounded number of its own steps
    and never performs a blocking operation"""
    out = []
    wk = h.scn.wk if h.scn is not None else "busy"
    for c in h.calls:
        if c.name not in ("send", "recv", "view"):
            continue
        ops = c.ops
        if wk in ("busy", "yield"):
            for (stno, k, l, a_, b_, r, o_) in ops:
                if k in ("cvwait", "yield", "sleep") or (k == "lock" and l in ("bw", "cp", "pp")):
                    out.append(V("C18", "%s performed a waiting operation (%s %s)" % (c.name, k, l), stno, h))
        # maximal solo segments of the call
        mine = [st.no for st in h.steps if st.agent == c.agent and c.start <= st.no <= (c.end or 10**9)]
        if not mine:
            continue
        # solo suffix: steps of this call after the last step of any other agent that falls inside the call
        others = [st.no for st in h.steps if st.agent != c.agent and c.start <= st.no <= (c.end or 10**9)]
        lo = max(others) if others else c.start - 1
        solo = [x for x in mine if x > lo]
        sn = snap_at(h, c.start)
        g = len(sn.sids) if sn is not None and not sn.torn else 1
        bound = 4 * (g + 16) + 120
        if len(solo) > bound:
            out.append(V("C18", "%s by agent %d took %d steps alone without returning (bound %d)" % (c.name, c.agent, len(solo), bound), c.start, h))
    for a, c in stuck_agents(h):
        if c.name in ("send", "recv", "view") and h.end.get("outcome") in ("limit",):
            own = sum(1 for st in h.steps if st.agent == a and st.no >= c.start)
            if own > 500:
                out.append(V("C18", "%s by agent %d never returned (%d own steps)" % (c.name, a, own), c.start, h))
    return out

def o_C10(h):
    """a new stream starts at a position its parent held at some instant during the add_stream call
    (the parent's position at the call when the caller is the parent's only handle), and is registered there"""
    out = []
    track_population(h)
    snaps = [(st.no, st.snap) for st in h.steps if st.snap is not None and not st.snap.torn]
    for c in h.calls:
        if c.name not in ("addstream", "intomulti", "transform"):
            continue
        ns = h.new_stream_of_call.get(id(c))
        if ns is None or ns not in h.stream_start:
            continue
        raw, parent = h.stream_start[ns], h.stream_parent.get(ns)
        pub = [stno for (stno, k, l, a_, b_, r, o_) in c.ops if k == "pcas" and l == "readers" and o_ == "1"]
        if not pub:
            continue
        pub = pub[-1]
        seen, at_call = set(), None
        for (no, sn) in snaps:
            if no > pub:
                break
            if parent in sn.sids:
                v = sn.poss[sn.sids.index(parent)]
                if no < c.start:
                    at_call = v; seen = {v}
                else:
                    seen.add(v)
        if at_call is None and parent == 0 and c.start <= 2:
            at_call = 0; seen.add(0)
        if seen and raw not in seen:
            out.append(V("C10", "stream %s starts at %d, a position its parent %s never held during the call (held %s)" % (ns, raw, parent, sorted(seen)), pub, h))
        _, hs, _, _ = handles_at(h, c.start)
        if hs.get(parent, 0) == 1 and at_call is not None and raw != at_call:
            out.append(V("C10", "stream %s starts at %d but its parent %s (sole handle) was at %d when add_stream was called" % (ns, raw, parent, at_call), pub, h))
        for (no, sn) in snaps:
            if no == pub and ns in sn.sids:
                v = sn.poss[sn.sids.index(ns)]
                if v != raw:
                    out.append(V("C10", "stream %s was registered at %d although the parent position read was %d" % (ns, v, raw), pub, h))
    return out

def o_bad(h):
    return [V("C04", "payload self-check failed", s, h) for s in h.bad_steps[:1]]

ORACLES.update({"C06": o_C06, "C08": o_C08, "C09": o_C09, "C10": o_C10, "C11": o_C11, "C14": o_C14, "C15": o_C15,
                "C16": o_C16, "C17": o_C17, "C18": o_C18})
