#!/usr/bin/env python3
"""Per-property configuration of the checks: which scenarios, which oracles, what counts as
non-trivial, which known classes excuse a hit."""
import os, sys, json, subprocess
import scen, oracle

HERE = os.path.dirname(os.path.abspath(__file__))
ROOT = os.path.dirname(HERE)

def cap_n(cap_req):
    if cap_req == 0:
        return 1
    n = 1
    while n < cap_req:
        n *= 2
    return n

def parse_scn_text(text):
    out, cur = [], None
    for line in text.splitlines():
        w = line.split()
        if not w:
            continue
        if w[0] == "scenario":
            cur = scen.Scn(w[1], "B", "plain", 1, "busy", 0, 0, {}, [], 4000)
        elif cur is None:
            continue
        elif w[0] == "cfg":
            cur.fl, cur.kind, cur.cap, cur.wk, cur.sf, cur.sy = w[1], w[2], int(w[3]), w[4], int(w[5]), int(w[6])
        elif w[0] == "limit":
            cur.limit = int(w[1])
        elif w[0] == "script":
            cur.scripts[int(w[1])] = w[2:]
        elif w[0] == "sched":
            cur.sched.extend(w[1:])
        elif w[0] == "end":
            out.append(cur); cur = None
    return out

def load_scn_file(path):
    return parse_scn_text(open(path).read())

def S(name, cfg, scripts, sched=(), limit=1500):
    fl, kind, cap, wk, sf, sy = cfg.split()
    return scen.Scn(name, fl, kind, int(cap), wk, int(sf), int(sy), {int(k): v.split() for k, v in scripts.items()}, list(sched), limit)

# ---------------------------------------------------------------- generators
def g_seq(rng, i, **kw):
    return scen.gen_seq(rng, i, **kw)
def g_rand(rng, i, **kw):
    return scen.gen_rand(rng, i, **kw)

def g_pc(rng, i, **kw):
    """producers racing consumers on shared and separate streams; no blocking calls"""
    fl = kw.get("fl") or rng.choice("BM")
    kind = kw.get("kind") or rng.choice(["plain", "plain", "fut"])
    _, _, cap, wk, sf, sy = scen.pick_cfg(rng, kind, fl, blocking_ok=False)
    cap = rng.choice([0, 1, 2, 2, 3, 4])
    scripts = {0: [], 1: []}
    nprod = rng.choice([1, 2, 2, 3]); ncons = rng.choice([1, 2, 3]); nstream = rng.choice([1, 2]) if fl == "B" else 1
    nxt = 2; val = [1]
    snd = "send:%d" if kind == "plain" else rng.choice(["send:%d", "ssend:%d"])
    rcv = "recv" if kind == "plain" else rng.choice(["recv", "poll"])
    def sends(k):
        out = []
        for _ in range(k):
            out.append(snd % val[0]); val[0] += 1
        return out
    prods = [0]
    for _ in range(nprod - 1):
        scripts[prods[-1]].append("clone:%d" % nxt); scripts[nxt] = []; prods.append(nxt); nxt += 1
    heads = [1]
    for _ in range(nstream - 1):
        scripts[1].append("addstream:%d" % nxt); scripts[nxt] = []; heads.append(nxt); nxt += 1
    conss = list(heads)
    for hd in heads:
        for _ in range(ncons - 1):
            if rng.random() < 0.6:
                scripts[hd].append("clone:%d" % nxt); scripts[nxt] = []; conss.append(nxt); nxt += 1
    for p in prods:
        scripts[p] += sends(rng.choice([2, 3, 5, 8])) + ["drop"]
    for c in conss:
        scripts[c] += [rcv] * rng.choice([2, 4, 6, 10]) + [rng.choice(["drop", "unsub"])]
    return scen.Scn("pc%d" % i, fl, kind, cap, wk, sf, sy, scripts,
                    scen.sched_rand(rng, scripts, rng.choice([60, 200, 500])), tags=("pc",))

def g_view(rng, i, **kw):
    """a producer wrapping the ring while single consumers view / clone"""
    fl = kw.get("fl") or rng.choice("BM")
    cap = rng.choice([1, 2, 2, 4])
    wk = rng.choice(["busy", "yield"])
    sf, sy = (0, 0) if wk == "busy" else (rng.choice([0, 1]), rng.choice([0, 1]))
    scripts = {0: [], 1: []}
    nxt = 2; val = 1
    if fl == "B" and rng.random() < 0.6:
        scripts[1].append("addstream:%d" % nxt); scripts[nxt] = ["recv"] * rng.choice([3, 6]) + ["drop"]; nxt += 1
    if rng.random() < 0.5:
        scripts[0].append("clone:%d" % nxt)
        scripts[nxt] = ["send:%d" % (100 + k) for k in range(rng.choice([2, 5]))] + ["drop"]; nxt += 1
    scripts[0] += ["send:%d" % (val + k) for k in range(rng.choice([4, 8, 12]))] + ["drop"]
    if rng.random() < 0.7:
        scripts[1] += ["intosingle"] + [rng.choice(["view", "view", "recv"]) for _ in range(rng.choice([4, 8, 12]))]
        if rng.random() < 0.3:
            scripts[1] += ["intomulti", "recv"]
    else:
        scripts[1].append("clone:%d" % nxt); scripts[nxt] = ["recv"] * rng.choice([3, 6]) + ["drop"]; nxt += 1
        scripts[1] += ["recv"] * rng.choice([4, 8])
    scripts[1].append(rng.choice(["drop", "unsub"]))
    return scen.Scn("view%d" % i, fl, "plain", cap, wk, sf, sy, scripts,
                    scen.sched_rand(rng, scripts, rng.choice([80, 250, 600])), tags=("view",))

def g_teardown(rng, i, **kw):
    """traffic, then every teardown order, queue possibly non-empty / partially consumed"""
    fl = kw.get("fl") or rng.choice("BM")
    kind = rng.choice(["plain", "plain", "fut"])
    _, _, cap, wk, sf, sy = scen.pick_cfg(rng, kind, fl, blocking_ok=False)
    scripts = scen.gen_scripts(rng, fl, kind, rng.choice([8, 14, 24]), allow_block=False)
    mode = rng.choice(["seq", "rand"])
    sched = scen.sched_seq(rng, scripts) if mode == "seq" else scen.sched_rand(rng, scripts, rng.choice([60, 200]))
    return scen.Scn("td%d" % i, fl, kind, cap, wk, sf, sy, scripts, sched, tags=("teardown",))

def g_disc(rng, i, **kw):
    """the last senders' final sends and drops against consumers polling or blocked"""
    fl = kw.get("fl") or rng.choice("BM")
    kind = rng.choice(["plain", "plain", "fut"])
    _, _, cap, wk, sf, sy = scen.pick_cfg(rng, kind, fl)
    cap = rng.choice([0, 1, 2, 4])
    scripts = {0: [], 1: []}
    nxt = 2; val = 1
    for _ in range(rng.choice([0, 1, 2])):
        scripts[0].append("clone:%d" % nxt)
        scripts[nxt] = ["send:%d" % (val + k) for k in range(rng.choice([0, 1, 3]))] + ["drop"]; val += 3; nxt += 1
    scripts[0] += ["send:%d" % (val + k) for k in range(rng.choice([0, 1, 2, 4]))] + ["drop"]
    rcv = ["recv", "brecv"] if kind == "plain" else ["recv", "poll", "apoll", "brecv"]
    if rng.random() < 0.5:
        scripts[1].append("clone:%d" % nxt)
        scripts[nxt] = [rng.choice(rcv) for _ in range(rng.choice([2, 4, 7]))] + ["drop"]; nxt += 1
    if fl == "B" and rng.random() < 0.4:
        scripts[1].append("addstream:%d" % nxt)
        scripts[nxt] = [rng.choice(rcv) for _ in range(rng.choice([2, 4, 7]))] + ["drop"]; nxt += 1
    if kind == "plain" and len(scripts) == 2 + (len([a for a in scripts if a >= 2 and scripts[a] and scripts[a][0].startswith("send")])) and rng.random() < 0.5:
        # the only handle of its stream: convert and use the in-place view entry points
        scripts[1] += ["intosingle"] + [rng.choice(["view", "view", "bview", "recv"]) for _ in range(rng.choice([3, 6, 9]))]
    elif kind == "fut" and rng.random() < 0.3 and not any(c.startswith(("clone", "addstream")) for c in scripts[1]):
        scripts[1] += ["intosingle"] + [rng.choice(["poll", "recv", "apoll"]) for _ in range(rng.choice([3, 6, 9]))]
    else:
        scripts[1] += [rng.choice(rcv) for _ in range(rng.choice([3, 6, 9]))]
    scripts[1] += [rng.choice(["drop", "unsub"])]
    return scen.Scn("disc%d" % i, fl, kind, cap, wk, sf, sy, scripts,
                    scen.sched_rand(rng, scripts, rng.choice([40, 150, 400])), limit=2500, tags=("disc",))

def g_norecv(rng, i, **kw):
    """every order of dropping the receivers, then sends"""
    fl = kw.get("fl") or rng.choice("BM")
    kind = rng.choice(["plain", "fut"])
    _, _, cap, wk, sf, sy = scen.pick_cfg(rng, kind, fl, blocking_ok=False)
    scripts = {0: [], 1: []}
    nxt = 2; val = 1
    pre = rng.choice([0, 1, 3])
    snd = ["send:%d"] if kind == "plain" else ["send:%d", "ssend:%d"]
    for _ in range(pre):
        scripts[0].append(rng.choice(snd) % val); val += 1
    if rng.random() < 0.5:
        scripts[0].append("clone:%d" % nxt)
        scripts[nxt] = [rng.choice(snd) % (50 + k) for k in range(rng.choice([1, 3]))] + ["drop"]; nxt += 1
    for _ in range(rng.choice([0, 1, 2])):
        if fl == "B" and rng.random() < 0.5:
            scripts[1].append("addstream:%d" % nxt)
        else:
            scripts[1].append("clone:%d" % nxt)
        scripts[nxt] = ["recv"] * rng.choice([0, 1]) + [rng.choice(["drop", "unsub"])]; nxt += 1
    scripts[1] += ["recv"] * rng.choice([0, 1, 2]) + [rng.choice(["drop", "unsub"])]
    for _ in range(rng.choice([2, 4, 6])):
        scripts[0].append(rng.choice(snd) % val); val += 1
    scripts[0].append("drop")
    mode = rng.choice(["seq", "rand", "rand"])
    sched = scen.sched_seq(rng, scripts) if mode == "seq" else scen.sched_rand(rng, scripts, rng.choice([40, 150]))
    return scen.Scn("norecv%d" % i, fl, kind, cap, wk, sf, sy, scripts, sched, tags=("norecv",))


def _spins(rng, allow_default=False):
    c = [0, 0, 1, 2] + ([50] if allow_default else [])
    return rng.choice(c), rng.choice(c)

def g_block(rng, i, **kw):
    """consumers entering blocking receives against producers that send and drop / stay alive"""
    fl = kw.get("fl") or rng.choice("BM")
    wk = rng.choice(["busy", "yield", "block", "block"])
    sf, sy = (0, 0) if wk == "busy" else _spins(rng, allow_default=rng.random() < 0.1)
    cap = rng.choice([1, 1, 2, 2, 4])
    scripts = {0: [], 1: []}
    nxt = 2
    nval = rng.choice([1, 2, 3, 4, 6])
    cons = [1]
    for _ in range(rng.choice([0, 1, 1, 2])):
        if fl == "B" and rng.random() < 0.4:
            scripts[1].append("addstream:%d" % nxt)
        else:
            scripts[1].append("clone:%d" % nxt)
        scripts[nxt] = []; cons.append(nxt); nxt += 1
    for c in cons:
        k = rng.choice([1, 1, 2, 3])
        calls = [rng.choice(["brecv", "brecv", "recv"]) for _ in range(k)]
        if rng.random() < 0.2 and c != 1 and False:
            pass
        scripts[c] += calls + ([rng.choice(["drop", "unsub"])] if rng.random() < 0.7 else [])
    if rng.random() < 0.4:
        scripts[0].append("clone:%d" % nxt)
        scripts[nxt] = ["send:%d" % (50 + k) for k in range(rng.choice([1, 2]))] + (["drop"] if rng.random() < 0.7 else []); nxt += 1
    scripts[0] += ["send:%d" % (k + 1) for k in range(nval)] + (["drop"] if rng.random() < 0.5 else [])
    return scen.Scn("blk%d" % i, fl, "plain", cap, wk, sf, sy, scripts,
                    scen.sched_rand(rng, scripts, rng.choice([30, 80, 200])), limit=1600, tags=("block",))

def g_lapped(rng, i, **kw):
    """a consumer already inside a blocking receive is lapped: a sibling on the same stream takes the value it
    waits for, the producer refills the slot, the sibling leaves and the producer stays alive but silent"""
    fl = kw.get("fl") or rng.choice("BM")
    wk = rng.choice(["busy", "yield", "block", "block"])
    sf, sy = (0, 0) if wk == "busy" else _spins(rng)
    cap = rng.choice([1, 1, 2, 4])
    n = cap_n(cap)
    scripts = {0: [], 1: ["clone:2"], 2: []}
    sched = ["1*"]
    waiter_call = rng.choice(["brecv", "brecv", "bview"]) if False else "brecv"
    scripts[1].append(waiter_call)
    sched += ["1"] * rng.choice([6, 9, 12, 16, 22, 30])
    val = 1
    for _ in range(n):
        scripts[0].append("send:%d" % val); val += 1; sched.append("0*")
    for _ in range(n):
        scripts[2].append("recv"); sched.append("2*")
    if rng.random() < 0.5:
        sched += ["1"] * rng.choice([1, 2, 3, 5])
    for _ in range(rng.choice([1, n])):
        scripts[0].append("send:%d" % val); val += 1; sched.append("0*")
    scripts[2].append(rng.choice(["drop", "unsub"])); sched.append("2*")
    if rng.random() < 0.3:
        scripts[0].append("drop")
    return scen.Scn("lapped%d" % i, fl, "plain", cap, wk, sf, sy, scripts, sched, limit=1500, tags=("lapped",))

def g_pinned(rng, i, **kw):
    """a consumer of a shared stream is frozen in the middle of cloning out of a slot (pinned), a sibling drains the
    ring, then a producer (single- or multi-writer mode) runs a try_send alone against the pinned slot"""
    cap = rng.choice([1, 2, 2, 4])
    n = cap_n(cap)
    wk = rng.choice(["busy", "yield"])
    sf, sy = (0, 0) if wk == "busy" else _spins(rng)
    scripts = {0: [], 1: ["clone:2"], 2: []}
    sched = ["1*"]
    multi = rng.random() < 0.7
    if multi:
        scripts[0].append("clone:3"); scripts[3] = []; sched.append("0*")
    val = 1
    for _ in range(n):
        scripts[0].append("send:%d" % val); val += 1; sched.append("0*")
    scripts[1].append("recv")
    sched += ["1"] * rng.choice([7, 7, 8, 8, 9])
    for _ in range(n):
        scripts[2].append("recv"); sched.append("2*")
    prod = 3 if multi and rng.random() < 0.7 else 0
    for _ in range(rng.choice([1, 2])):
        scripts[prod].append("send:%d" % val); val += 1; sched.append("%d*" % prod)
    sched.append("1*")
    for a in scripts:
        scripts[a].append("drop")
    return scen.Scn("pinned%d" % i, "B", "plain", cap, wk, sf, sy, scripts, sched, limit=1200, tags=("pinned", "solo"))

def g_norecv_churn(rng, i, **kw):
    """enough handle churn to open a reclamation epoch, then every receiver leaves, then the (so far idle) senders send"""
    fl = kw.get("fl") or rng.choice("BBM")
    kind = rng.choice(["plain", "plain", "fut"])
    if kind == "fut":
        wk, sf, sy = ("fut", 50, 50) if fl == "M" else ("fut", 0, 0)
    else:
        wk, sf, sy = "busy", 0, 0
    cap = rng.choice([1, 2, 4])
    scripts = {0: [], 1: []}
    sched = []
    nxt = 2
    senders = [0]
    if rng.random() < 0.4:
        scripts[0].append("clone:%d" % nxt); scripts[nxt] = []; senders.append(nxt); sched.append("0*"); nxt += 1
    cycles = rng.choice([7, 8, 9, 12]) if fl == "B" else rng.choice([22, 24, 26])
    for _ in range(cycles):
        a = nxt; nxt += 1
        if fl == "B" and rng.random() < 0.85:
            scripts[1].append("addstream:%d" % a)
        else:
            scripts[1].append("clone:%d" % a)
        scripts[a] = [rng.choice(["drop", "unsub"])]
        sched.extend(["1*", "%d*" % a])
    scripts[1].append(rng.choice(["drop", "unsub"])); sched.append("1*")
    val = 1
    snd = ["send:%d"] if kind == "plain" else ["send:%d", "ssend:%d"]
    for sd in senders:
        for _ in range(rng.choice([1, 2, 3])):
            scripts[sd].append(rng.choice(snd) % val); val += 1; sched.append("%d*" % sd)
    for sd in senders:
        scripts[sd].append("drop")
    return scen.Scn("nrchurn%d" % i, fl, kind, cap, wk, sf, sy, scripts, sched, limit=9000, tags=("norecv", "churn"))

def g_lastsend(rng, i, **kw):
    """a consumer is frozen in the middle of a receive that has found its slot empty; the last sender publishes one more
    value and goes away; the consumer resumes (it must deliver the value, not report the end)"""
    fl = kw.get("fl") or rng.choice("BM")
    cap = rng.choice([1, 2, 4])
    wk = rng.choice(["busy", "yield"])
    sf, sy = (0, 0) if wk == "busy" else _spins(rng)
    scripts = {0: [], 1: []}
    sched = []
    view = rng.random() < 0.5
    pre = rng.choice([0, 1, 2])
    val = 1
    for _ in range(pre):
        scripts[0].append("send:%d" % val); val += 1; sched.append("0*")
    if view:
        scripts[1].append("intosingle"); sched.append("1*")
    rc = rng.choice(["view", "recv"]) if view else "recv"
    for _ in range(pre):
        scripts[1].append(rc); sched.append("1*")
    shared = (not view) and rng.random() < 0.4
    if shared:
        scripts[1].insert(0, "clone:2"); scripts[2] = ["drop"]; sched.insert(0, "1*")
    scripts[1].append(rc)
    sched += ["1"] * rng.choice([3, 4, 5, 6, 7, 8, 9])
    scripts[0].append("send:%d" % val); val += 1; sched.append("0*")
    scripts[0].append("drop"); sched.append("0*")
    sched.append("1*")
    scripts[1] += [rc, rc, "drop"]
    return scen.Scn("lastsend%d" % i, fl, "plain", cap, wk, sf, sy, scripts, sched, limit=1500, tags=("lastsend", "disc"))

def g_lastsibling(rng, i, **kw):
    """two handles on one stream; A is frozen a few steps into a receive; its sibling B receives, then goes away (A becomes
    the only consumer in the middle of its attempt); producers move on (lap A's slot, or publish the last value and leave);
    A resumes.  A must neither report the end early nor touch an overwritten slot."""
    fl = kw.get("fl") or rng.choice("BBM")
    cap = rng.choice([1, 2, 2, 4])
    n = cap_n(cap)
    wk = rng.choice(["busy", "yield"])
    sf, sy = (0, 0) if wk == "busy" else _spins(rng)
    scripts = {0: [], 1: ["clone:2"], 2: []}
    sched = ["1*"]
    val = 1
    pre = rng.choice([1, 1, 2])
    for _ in range(min(pre, n)):
        scripts[0].append("send:%d" % val); val += 1; sched.append("0*")
    scripts[1].append("recv")
    sched += ["1"] * rng.choice([2, 3, 4, 5, 6])
    took = rng.choice([1, 1, 2])
    for _ in range(took):
        scripts[2].append("recv"); sched.append("2*")
    leave = rng.choice(["drop", "unsub"])
    scripts[2].append(leave)
    order = rng.random() < 0.5
    if order:
        sched.append("2*")
    if rng.random() < 0.7:
        sched += ["1"] * rng.choice([1, 2])
    more = rng.choice([1, 2, n, n + 1])
    for _ in range(more):
        scripts[0].append("send:%d" % val); val += 1; sched.append("0*")
    if rng.random() < 0.6:
        scripts[0].append("drop"); sched.append("0*")
    if not order:
        sched.append("2*")
    sched.append("1*")
    scripts[1] += ["recv", "recv", "recv", "drop"]
    return scen.Scn("lastsibling%d" % i, fl, "plain", cap, wk, sf, sy, scripts, sched, limit=1500, tags=("lastsibling", "disc"))

def g_lagdrop(rng, i, **kw):
    """futures queue, ring full only because one stream lags; the sink task parks; the lagging stream is dropped or
    unsubscribed while another stream stays: the parked sender has to be notified"""
    cap = rng.choice([1, 1, 2])
    n = cap_n(cap)
    sf, sy = _spins(rng)
    scripts = {0: [], 1: ["addstream:2"], 2: []}
    sched = ["1*"]
    val = 1
    for _ in range(n):
        scripts[0].append("asend:%d" % val); val += 1; sched.append("0*")
    for _ in range(n):
        scripts[1].append(rng.choice(["apoll", "poll", "recv"])); sched.append("1*")
    scripts[0].append("asend:%d" % val); val += 1; sched.append("0*")
    if rng.random() < 0.5:
        scripts[1].append("apoll"); sched.append("1*")
    if rng.random() < 0.5:
        scripts[2].append(rng.choice(["drop", "unsub"])); sched.append("2*")
    else:
        for _ in range(rng.choice([1, n])):
            scripts[2].append(rng.choice(["recv", "poll", "apoll"])); sched.append("2*")
    if rng.random() < 0.5:
        scripts[0].append("drop")
    return scen.Scn("lagdrop%d" % i, "B", "fut", cap, "fut", sf, sy, scripts, sched, limit=1500, tags=("lagdrop", "fut"))

def g_viewfull(rng, i, **kw):
    """a single-consumer view receiver on a full ring with a producer that keeps retrying: the slot is handed back
    to the producer around the in-place destruction of the viewed value"""
    fl = kw.get("fl") or rng.choice("MMB")
    cap = rng.choice([1, 1, 2])
    n = cap_n(cap)
    scripts = {0: [], 1: ["intosingle"]}
    val = 1
    for _ in range(n):
        scripts[0].append("send:%d" % val); val += 1
    sched = ["1*"] + ["0*"] * n
    k = rng.choice([3, 4, 6])
    for _ in range(3 * k):
        scripts[0].append("send:%d" % val); val += 1
    scripts[1] += [rng.choice(["view", "view", "recv"]) for _ in range(k)]
    scripts[0].append("drop"); scripts[1].append("drop")
    sched += scen.sched_rand(rng, scripts, rng.choice([120, 300]))
    return scen.Scn("viewfull%d" % i, fl, "plain", cap, "busy", 0, 0, scripts, sched, limit=2500, tags=("viewfull", "view"))

def g_pinleak(rng, i, **kw):
    """a consumer is frozen between taking and releasing its reference on a slot while its sibling handle goes away;
    afterwards everything is joined and a sequential probe fills and drains the ring several laps"""
    cap = rng.choice([1, 2, 4])
    n = cap_n(cap)
    scripts = {0: [], 1: ["clone:2"], 2: []}
    sched = ["1*"]
    val = 1
    for _ in range(rng.choice([1, n])):
        scripts[0].append("send:%d" % val); val += 1; sched.append("0*")
    scripts[1].append("recv")
    sched += ["1"] * rng.choice([7, 8, 8, 9])
    scripts[2].append(rng.choice(["drop", "unsub"])); sched.append("2*")
    sched.append("1*")
    scripts[0].append("sync"); scripts[1].append("sync")
    for lap in range(3):
        scripts[0] += ["send:%d" % (val + k) for k in range(n + 1)]; val += n + 1
        scripts[1] += ["recv"] * (n + 1)
    return scen.Scn("pinleak%d" % i, "B", "plain", cap, "busy", 0, 0, scripts, sched, limit=3000, tags=("pinleak", "quiesce"))

def g_fut(rng, i, **kw):
    """sink tasks and stream tasks that await notifications"""
    fl = kw.get("fl") or rng.choice("BBM")
    sf, sy = (50, 50) if fl == "M" else _spins(rng)
    cap = rng.choice([1, 1, 2])
    scripts = {0: [], 1: []}
    nxt = 2; val = 1
    streams = [1]
    for _ in range(rng.choice([0, 1, 1, 2])):
        if fl == "B" and rng.random() < 0.6:
            scripts[1].append("addstream:%d" % nxt)
        else:
            scripts[1].append("clone:%d" % nxt)
        scripts[nxt] = []; streams.append(nxt); nxt += 1
    for c in streams:
        k = rng.choice([1, 2, 3, 4])
        style = rng.choice(["apoll", "apoll", "poll", "recv", "mix"])
        calls = []
        for _ in range(k):
            calls.append(style if style != "mix" else rng.choice(["apoll", "poll", "recv", "brecv"]))
        if rng.random() < 0.25:
            calls = calls[:1]
        if c != 1 and rng.random() < 0.3:
            calls = []          # a stream that lags behind and then leaves
        scripts[c] += calls + ([rng.choice(["drop", "unsub"])] if (rng.random() < 0.75 or not calls) else [])
    senders = [0]
    if rng.random() < 0.4:
        scripts[0].append("clone:%d" % nxt); scripts[nxt] = []; senders.append(nxt); nxt += 1
    for sd in senders:
        k = rng.choice([1, 2, 3, 5])
        for _ in range(k):
            scripts[sd].append(rng.choice(["asend:%d", "asend:%d", "ssend:%d", "send:%d"]) % val); val += 1
        if rng.random() < 0.6:
            scripts[sd].append("drop")
    return scen.Scn("fut%d" % i, fl, "fut", cap, "fut", sf, sy, scripts,
                    scen.sched_rand(rng, scripts, rng.choice([30, 100, 300])), limit=2500 if fl == "M" else 1800, tags=("fut",))

def g_churn(rng, i, **kw):
    """stream add/remove and handle clone/drop churn with writers scanning and a late handle"""
    fl = "B"
    kind = rng.choice(["plain", "plain", "fut"])
    wk, sf, sy = ("busy", 0, 0) if kind == "plain" else ("fut", 0, 0)
    cap = rng.choice([1, 2, 4])
    cycles = kw.get("cycles") or rng.choice([6, 12, 20, 30])
    scripts = {0: [], 1: []}
    nxt = 2
    late = None
    if rng.random() < 0.7:
        scripts[1].append("clone:%d" % nxt); late = nxt; scripts[nxt] = []; nxt += 1
    if rng.random() < 0.5:
        scripts[0].append("clone:%d" % nxt)
        scripts[nxt] = ["send:%d" % (200 + k) for k in range(rng.choice([3, 8]))] + ["drop"]; nxt += 1
    for k in range(cycles):
        r = rng.random()
        if r < 0.7:
            scripts[1].append("addstream:%d" % nxt)
            scripts[nxt] = ["recv"] * rng.choice([0, 1]) + [rng.choice(["drop", "unsub"])]
        else:
            scripts[1].append("clone:%d" % nxt)
            scripts[nxt] = ["recv"] * rng.choice([0, 1]) + ["drop"]
        nxt += 1
        if rng.random() < 0.5:
            scripts[1].append("recv")
    scripts[1].append("drop")
    scripts[0] += ["send:%d" % (k + 1) for k in range(rng.choice([4, 10, 16]))] + ["drop"]
    sched = scen.sched_rand(rng, {a: v for a, v in scripts.items() if a != late}, rng.choice([300, 700]))
    if late is not None:
        scripts[late] = ["recv"] * rng.choice([1, 2]) + ["drop"]
        # the late handle acknowledges only after a lot of churn
        sched = sched + [str(late)] * 30 + scen.sched_rand(rng, scripts, 200)
    return scen.Scn("churn%d" % i, fl, kind, cap, wk, sf, sy, scripts, sched, limit=6000, tags=("churn",))

def g_reclaim(rng, i, **kw):
    """reclamation cycles turning while a writer is frozen in the middle of scanning the stream list and an idle
    handle acknowledges late: pre-churn (first cycle starts), writer frozen mid-send, >= 21 more retirements,
    the idle handle operates, one more retirement, the writer resumes"""
    kind = "plain"
    cap = rng.choice([1, 1, 2])
    scripts = {0: [], 1: [], 2: []}
    sched = []
    nxt = 3
    scripts[1].append("clone:2"); sched.append("1*")
    writers = [0]
    if rng.random() < 0.5:
        scripts[0].append("clone:%d" % nxt); scripts[nxt] = []; writers.append(nxt); sched.append("0*"); nxt += 1
    def cycle():
        nonlocal nxt
        a = nxt; nxt += 1
        if rng.random() < 0.8:
            scripts[1].append("addstream:%d" % a)
        else:
            scripts[1].append("clone:%d" % a)
        scripts[a] = [rng.choice(["drop", "unsub"])]
        sched.extend(["1*", "%d*" % a])
    for _ in range(rng.choice([6, 7, 8, 9])):
        cycle()
    # fill the ring so that the next send has to scan the stream list, then freeze writers inside a send
    val = 1
    n = cap_n(cap)
    for _ in range(n):
        scripts[0].append("send:%d" % val); val += 1; sched.append("0*")
    # a stream that is registered while the writers take their snapshot of the stream list and leaves afterwards
    hold = nxt; nxt += 1
    scripts[1].append("addstream:%d" % hold); scripts[hold] = [rng.choice(["drop", "unsub"])]; sched.append("1*")
    for w in writers:
        scripts[w].append("send:%d" % val); val += 1
        sched.extend([str(w)] * rng.choice([5, 7, 8, 8, 9, 9, 10]))
    sched.append("%d*" % hold)
    for _ in range(rng.choice([7, 8, 9, 10])):
        cycle()
    scripts[2].append("recv"); sched.append("2*")
    scripts[1].append("recv"); sched.append("1*")
    for _ in range(rng.choice([1, 2, 7])):
        cycle()
    for w in writers:
        sched.append("%d*" % w)
    scripts[2].append("drop")
    scripts[1] += ["recv", "drop"]
    for w in writers:
        scripts[w].append("drop")
    return scen.Scn("reclaim%d" % i, "B", kind, cap, "busy", 0, 0, scripts, sched, limit=9000, tags=("reclaim",))

def g_quiesce(rng, i, **kw):
    """a concurrent phase, all threads joined (sync), then a sequential drain / refill probe"""
    fl = kw.get("fl") or rng.choice("BM")
    kind = rng.choice(["plain", "plain", "fut"])
    _, _, cap, wk, sf, sy = scen.pick_cfg(rng, kind, fl, blocking_ok=False)
    cap = rng.choice([0, 1, 2, 3, 4])
    n = cap_n(cap)
    scripts = scen.gen_scripts(rng, fl, kind, rng.choice([6, 10, 16]), allow_block=False, allow_convert=False)
    # survivors keep their handles for the probe
    val = 900
    # sender or receiver: inherited from the handle it was cloned / added from
    role = {0: "s", 1: "r"}
    changed = True
    while changed:
        changed = False
        for a in sorted(scripts):
            if a not in role:
                continue
            for c in scripts[a]:
                if c.startswith(("clone:", "addstream:")):
                    b = int(c.split(":")[1])
                    if b not in role:
                        role[b] = role[a]; changed = True
    for a in sorted(scripts):
        sc = scripts[a]
        ends = sc and sc[-1] in ("drop", "unsub")
        is_sender = role.get(a) == "s"
        keep = rng.random() < 0.7 or a in (0, 1)
        sc2 = [c for c in sc if not c.startswith(("asend", "apoll"))]
        if ends and keep:
            sc2 = sc2[:-1] + ["sync"]
            if is_sender:
                sc2 += ["send:%d" % (val + k) for k in range(n + 2)]; val += n + 2
            else:
                sc2 += ["recv"] * (n + 2)
        scripts[a] = sc2
    # second round of the probe: refill after the drain
    if scripts[0] and "sync" in scripts[0]:
        scripts[0] += ["send:%d" % (val + k) for k in range(n + 2)]
    return scen.Scn("qui%d" % i, fl, kind, cap, wk, sf, sy, scripts,
                    scen.sched_rand(rng, scripts, rng.choice([40, 150, 400])), limit=4000, tags=("quiesce",))

def g_addstream(rng, i, **kw):
    """add_stream racing producers (wrapping the ring) and consumers of the parent and of other streams"""
    kind = rng.choice(["plain", "plain", "fut"])
    wk, sf, sy = ("busy", 0, 0) if kind == "plain" else ("fut", rng.choice([0, 1]), rng.choice([0, 1]))
    cap = rng.choice([1, 2, 2, 4])
    scripts = {0: [], 1: []}
    nxt = 2
    rcv = "recv" if kind == "plain" else rng.choice(["recv", "poll"])
    shared_parent = kw.get("shared", rng.random() < 0.3)
    if shared_parent:
        scripts[1].append("clone:%d" % nxt); scripts[nxt] = [rcv] * rng.choice([2, 4, 6]) + ["drop"]; nxt += 1
    pre = rng.choice([0, 1, 2])
    scripts[1] += [rcv] * pre
    for _ in range(rng.choice([1, 2, 3])):
        scripts[1].append("addstream:%d" % nxt)
        scripts[nxt] = [rcv] * rng.choice([2, 4, 8]) + [rng.choice(["drop", "unsub"])]; nxt += 1
        scripts[1] += [rcv] * rng.choice([0, 1, 2])
    scripts[1] += [rcv] * rng.choice([2, 4]) + ["drop"]
    if rng.random() < 0.4:
        scripts[0].append("clone:%d" % nxt)
        scripts[nxt] = ["send:%d" % (100 + k) for k in range(rng.choice([2, 5]))] + ["drop"]; nxt += 1
    scripts[0] += ["send:%d" % (k + 1) for k in range(rng.choice([4, 8, 12]))] + ["drop"]
    return scen.Scn("add%d" % i, "B", kind, cap, wk, sf, sy, scripts,
                    scen.sched_rand(rng, scripts, rng.choice([60, 200, 500])), tags=("addstream", "sharedparent" if shared_parent else "soleparent"))

def g_unsub(rng, i, **kw):
    """dropping / unsubscribing receiver handles against producers retrying on a full queue"""
    fl = kw.get("fl") or rng.choice("BBM")
    kind = rng.choice(["plain", "plain", "fut"])
    _, _, cap, wk, sf, sy = scen.pick_cfg(rng, kind, fl, blocking_ok=False)
    cap = rng.choice([0, 1, 2])
    scripts = {0: [], 1: []}
    nxt = 2
    leavers = []
    for _ in range(rng.choice([1, 2, 3])):
        if fl == "B" and rng.random() < 0.6:
            scripts[1].append("addstream:%d" % nxt)
        else:
            scripts[1].append("clone:%d" % nxt)
        scripts[nxt] = []; leavers.append(nxt); nxt += 1
    for a in leavers:
        if rng.random() < 0.5:
            scripts[a].append("clone:%d" % nxt); scripts[nxt] = ["recv"] * rng.choice([0, 1]) + [rng.choice(["drop", "unsub"])]; nxt += 1
        scripts[a] += ["recv"] * rng.choice([0, 0, 1]) + [rng.choice(["drop", "unsub", "unsub"])]
    scripts[1] += ["recv"] * rng.choice([1, 3, 6]) + [rng.choice(["drop", "unsub"])]
    snd = "send:%d" if kind == "plain" else rng.choice(["send:%d", "ssend:%d"])
    scripts[0] += [snd % (k + 1) for k in range(rng.choice([4, 8, 12]))] + ["drop"]
    return scen.Scn("unsub%d" % i, fl, kind, cap, wk, sf, sy, scripts,
                    scen.sched_rand(rng, scripts, rng.choice([60, 200, 400])), tags=("unsub",))

def g_handles(rng, i, **kw):
    """live senders 1->2->1 and consumers of a stream 1->2->1 (clone, drop, unsub, into_single/into_multi) during traffic"""
    fl = kw.get("fl") or rng.choice("BM")
    kind = rng.choice(["plain", "plain", "fut"])
    _, _, cap, wk, sf, sy = scen.pick_cfg(rng, kind, fl, blocking_ok=False)
    cap = rng.choice([1, 2, 4])
    scripts = {0: [], 1: []}
    nxt = 2; val = [1]
    snd = "send:%d" if kind == "plain" else rng.choice(["send:%d", "ssend:%d"])
    rcv = "recv" if kind == "plain" else rng.choice(["recv", "poll"])
    def sends(k):
        out = []
        for _ in range(k):
            out.append(snd % val[0]); val[0] += 1
        return out
    for _ in range(rng.choice([1, 2, 3])):
        scripts[0] += sends(rng.choice([1, 2, 3]))
        scripts[0].append("clone:%d" % nxt); scripts[nxt] = sends(rng.choice([1, 2, 4])) + ["drop"]; nxt += 1
    scripts[0] += sends(rng.choice([2, 4])) + ["drop"]
    for _ in range(rng.choice([1, 2, 3])):
        scripts[1] += [rcv] * rng.choice([1, 2, 3])
        scripts[1].append("clone:%d" % nxt); scripts[nxt] = [rcv] * rng.choice([1, 2, 4]) + [rng.choice(["drop", "unsub"])]; nxt += 1
    scripts[1] += [rcv] * rng.choice([2, 4])
    if rng.random() < 0.5:
        scripts[1] += ["intosingle"] + [rcv] * rng.choice([1, 3])
        # whichever way the conversion went, these calls are valid for both handle kinds
    scripts[1].append(rng.choice(["drop", "unsub"]))
    return scen.Scn("hnd%d" % i, fl, kind, cap, wk, sf, sy, scripts,
                    scen.sched_rand(rng, scripts, rng.choice([80, 250, 600])), tags=("handles",))

def g_futseq(rng, i, **kw):
    """sequential histories mixing start_send / poll_complete / poll with the direct methods, fresh queues included"""
    fl = kw.get("fl") or rng.choice("BM")
    sf, sy = (50, 50) if fl == "M" else _spins(rng)
    cap = rng.choice([0, 1, 2, 3, 4])
    scripts = {0: [], 1: []}
    val = 1
    # polls on a fresh, never-written, empty queue first
    scripts[1] += [rng.choice(["poll", "recv"]) for _ in range(rng.choice([1, 2]))]
    pop = scen.Pop(rng, fl, "fut", max_agents=5, allow_block=False)
    pop.scripts = scripts
    budget = rng.choice([8, 16, 30])
    while budget > 0 and pop.open:
        a = rng.choice(pop.open); pop.step(a); budget -= 1
        # awaiting calls would never return in a sequential history when they cannot progress
        pop.scripts[a][-1] = pop.scripts[a][-1].replace("apoll", "poll").replace("asend", "ssend")
    for a in list(pop.open):
        pop.close(a)
    return scen.Scn("fseq%d" % i, fl, "fut", cap, "fut", sf, sy, pop.scripts, scen.sched_seq(rng, pop.scripts), limit=6000, tags=("futseq",))

def g_solo(rng, i, **kw):
    """every other thread frozen at an arbitrary operation while one thread runs a single try operation alone"""
    fl = kw.get("fl") or rng.choice("BM")
    wk = rng.choice(["busy", "yield"])
    sf, sy = (0, 0) if wk == "busy" else _spins(rng)
    cap = rng.choice([0, 1, 2, 4])
    scripts = scen.gen_scripts(rng, fl, "plain", rng.choice([8, 14, 22]), allow_block=False)
    ags = sorted(scripts)
    toks = []
    for _ in range(rng.choice([3, 6, 10])):
        toks += scen.sched_rand(rng, scripts, rng.choice([5, 15, 40]))
        toks.append("%d*" % rng.choice(ags))
    toks = [t.replace("!", "") for t in toks]
    return scen.Scn("solo%d" % i, fl, "plain", cap, wk, sf, sy, scripts, toks, tags=("solo",))

GENS = {"seq": g_seq, "rand": g_rand, "pc": g_pc, "view": g_view, "teardown": g_teardown, "disc": g_disc,
        "norecv": g_norecv, "block": g_block, "fut": g_fut, "churn": g_churn, "quiesce": g_quiesce,
        "addstream": g_addstream, "unsub": g_unsub, "handles": g_handles, "futseq": g_futseq, "solo": g_solo, "reclaim": g_reclaim, "lapped": g_lapped, "pinned": g_pinned, "norecv_churn": g_norecv_churn, "lastsend": g_lastsend, "lastsibling": g_lastsibling, "lagdrop": g_lagdrop, "viewfull": g_viewfull, "pinleak": g_pinleak}

# ---------------------------------------------------------------- small scenarios for exhaustive schedules
def smalls_ring():
    return [
        S("b_2p1c", "B plain 1 busy 0 0", {0: "clone:2 send:1 drop", 1: "recv recv drop", 2: "send:2 drop"}),
        S("m_1p2c", "M plain 1 busy 0 0", {0: "send:1 send:2 drop", 1: "clone:2 recv drop", 2: "recv drop"}),
        S("b_1p2c", "B plain 2 busy 0 0", {0: "send:1 send:2 send:3 drop", 1: "clone:2 recv recv drop", 2: "recv drop"}),
        S("b_2s", "B plain 1 busy 0 0", {0: "send:1 send:2 drop", 1: "addstream:2 recv drop", 2: "recv recv drop"}),
    ]

ORACLES = dict(oracle.ORACLES)

PROPS = {
    "C01": {"gens": [("seq", 30, {}), ("rand", 50, {}), ("pc", 70, {}), ("lastsend", 30, {}), ("lastsibling", 30, {})], "small": smalls_ring(), "oracles": ["C01", "C07"]},
    "C02": {"gens": [("rand", 50, {}), ("pc", 100, {})], "small": smalls_ring(), "oracles": ["C02", "C01"]},
    "C03": {"gens": [("rand", 40, {}), ("pc", 110, {})], "small": smalls_ring(), "oracles": ["C03"]},
    "C04": {"gens": [("view", 90, {}), ("pc", 40, {"fl": "B"}), ("pinned", 30, {}), ("lastsibling", 30, {"fl": "B"})], "small": smalls_ring()[:2], "oracles": ["C04", "C01"]},
    "C05": {"gens": [("teardown", 90, {}), ("viewfull", 30, {}), ("rand", 30, {})], "small": smalls_ring()[:2], "oracles": ["C05"]},
    "C07": {"gens": [("disc", 100, {}), ("lastsend", 40, {}), ("lastsibling", 40, {}), ("rand", 20, {})], "small": [], "oracles": ["C07"]},
    "C13": {"gens": [("norecv", 110, {}), ("norecv_churn", 24, {}), ("rand", 20, {})], "small": [], "oracles": ["C13"]},
    "C06": {"gens": [("quiesce", 130, {}), ("pinleak", 20, {})], "small": [], "oracles": ["C06"]},
    "C08": {"gens": [("block", 130, {}), ("lapped", 40, {})], "small": [], "oracles": ["C08"]},
    "C09": {"gens": [("seq", 100, {}), ("futseq", 45, {}), ("norecv_churn", 16, {})], "small": [], "oracles": ["C09"]},
    "C10": {"gens": [("addstream", 130, {}), ("lagdrop", 30, {})], "small": [], "oracles": ["C01", "C03", "C10", "C14"]},
    "C11": {"gens": [("unsub", 150, {})], "small": [], "oracles": ["C11", "C01", "C03"]},
    "C12": {"gens": [("handles", 150, {})], "small": smalls_ring()[:1], "oracles": ["C01", "C02", "C03"]},
    "C14": {"gens": [("fut", 140, {}), ("lagdrop", 30, {})], "small": [], "oracles": ["C14"]},
    "C15": {"gens": [("futseq", 80, {}), ("fut", 50, {}), ("lagdrop", 20, {})], "small": [], "oracles": ["C15", "C09", "C01", "C14"]},
    "C16": {"gens": [("reclaim", 40, {}), ("churn", 50, {}), ("rand", 30, {})], "small": [], "oracles": ["C16"]},
    "C17": {"gens": [("reclaim", 20, {}), ("churn", 50, {}), ("teardown", 60, {})], "small": [], "oracles": ["C17"]},
    "C18": {"gens": [("solo", 120, {}), ("pinned", 40, {})], "small": [], "oracles": ["C18"]},
}

def nontrivial_rule(pid):
    return "at least two agents took steps inside overlapping calls and at least one value was accepted"

def nontrivial(pid, h):
    """conservative: the trace interleaves calls of different agents and moves data"""
    if not h.log:
        return False
    last, switches = None, 0
    for st in h.steps:
        if last is not None and st.agent != last:
            switches += 1
        last = st.agent
    return switches >= 3

# ---------------------------------------------------------------- known findings
def known_class(pid, h, known, vs=()):
    """Is a hit on this trace explained by a listed finding?  Each class is a predicate on the trace,
    as narrow as the defect."""
    for kf in known.get("findings", []):
        if pid not in kf["properties"]:
            continue
        c = kf["class"]
        if c == "F11" and h.kc_f11:
            return kf
        if c == "F12" and h.scn is not None and h.scn.fl == "M" and h.max_groups >= 2:
            return kf
        if c == "F14" and vs and all(v.get("pin_refusal") for v in vs):
            return kf
    return None

def replay_witness(kf, workdir):
    import corr
    path = os.path.join(ROOT, kf["witness"])
    if not os.path.exists(path):
        return "missing"
    scns = load_scn_file(path)
    res = corr.run_all(scns, os.path.join(workdir, "witness"), brief=False, jobs=1)
    for d in res:
        rl = d.get("real_lines")
        if rl is None:
            return "not-run"
        h = oracle.Hist(scns[0], oracle.parse_trace(rl), d["real_end"], cap_n(scns[0].cap))
        for o in kf.get("oracles", []):
            if ORACLES[o](h):
                return "fails"
    return "passes"

# ---------------------------------------------------------------- trusted base
def trusted_base(pid, pr):
    tb = [
        "Coq 8.16.1 kernel (coqc; vm_compute is used for witness/non-vacuity examples; native_compute is not used)",
        "axioms: none (every theorem of Props/%s.v prints 'Closed under the global context'; reported: %s)" % (pid, ",".join(pr.get("axioms", [])) or "none"),
        "hand-written model coq/theories/Model.v tied to /repo by the per-step correspondence check (tools/corr.py): operation kind, location, operands, result, full shared-state snapshot, enabled set and every return value after every scheduling step",
        "sequential consistency: the model interleaves atomic steps; weak-memory reorderings are not modelled",
        "extraction (Extraction + ExtrOcamlBasic only; no Extract Constant/Inductive of ours), OCaml 4.13.1, ocaml/driver.ml",
        "harness: src/verif_hooks.rs shims under --cfg multiqueue2_verif, harness/src/{rt,main}.rs scheduler and payload ledger, tools/{check,corr,oracle,scen,propcfg}.py",
        "replaced by shims and therefore not exercised: parking_lot/std mutex and condvar internals, thread::yield_now, thread::sleep, the system allocator",
    ]
    return tb

def assumptions(pid):
    return ["no 63-bit wrap of the position counters (head < 2^62) in the theorems",
            "sequentially consistent interleavings at the granularity of single shared-memory operations",
            "payload Clone and view closures do not touch the queue"]

CUSTOM = {}

# properties that have no theorem of their own in the Coq development yet (category "other" in the MANIFEST)
_NOTHM = ("decided by the per-step correspondence between the real code and the Coq model (every shared-memory operation, full state "
          "snapshot, enabled set and result after every scheduling step) plus the property's oracle on every real trace; "
          "the invariant that would state this property over all executions of the model is not proved yet - ")
NO_THEOREM = {
    "C17": _NOTHM + "needs the allocation inventory invariant; the model keeps the allocation ledger (live/freed) that the correspondence compares with the real allocator events",
}

# ---------------------------------------------------------------- C19: its own engine
def c19_engine(pid, tier, seed, evid, t0, finish):
    """translator (traitscan.py -> Gen/Handles.v) + theorem over the finite domain + rustc probes"""
    import check as chk
    violations, known_lines = [], []
    gen_path = os.path.join(ROOT, "coq", "theories", "Gen", "Handles.v")
    r = subprocess.run([sys.executable, os.path.join(HERE, "traitscan.py"), "/repo/src"], capture_output=True, text=True)
    regenerated = r.returncode == 0 and "Definition structs" in r.stdout
    if regenerated:
        old = open(gen_path).read() if os.path.exists(gen_path) else ""
        if old != r.stdout:
            open(gen_path, "w").write(r.stdout)
    pr = chk.proof_stage(pid, tier) if regenerated else {"ok": False, "obligations": 0, "discharged": 0, "theorems": [], "axioms": [], "detail": "traitscan failed: " + r.stderr[-500:], "checker_cmd": ""}
    # implementation side: rustc decides every well-formed instantiation
    pdir = os.path.join(ROOT, "probe")
    try:
        import shutil
        shutil.copy("/repo/Cargo.lock", os.path.join(pdir, "Cargo.lock"))
    except Exception:
        pass
    b = subprocess.run("CARGO_NET_OFFLINE=true cargo build --offline 2>&1 | tail -40", shell=True, cwd=pdir, capture_output=True, text=True)
    rows, mism = [], []
    exe = os.path.join(pdir, "target", "debug", "probe")
    built = "Finished" in b.stdout and os.path.exists(exe)
    if built:
        out = subprocess.run([exe], capture_output=True, text=True).stdout
        bc = {"BroadcastSender", "BroadcastReceiver", "BroadcastUniReceiver", "BroadcastFutSender", "BroadcastFutReceiver", "BroadcastFutUniReceiver"}
        fu = {"BroadcastFutUniReceiver", "MPMCFutUniReceiver"}
        for ln in out.splitlines():
            h, ps, py, fs, fy, s, y = ln.split()
            ps, py, fs, fy, s, y = map(int, (ps, py, fs, fy, s, y))
            exp = int(bool(ps) and (h not in bc or py) and (h not in fu or fs))
            rows.append(ln)
            if s != exp or y != 0:
                mism.append({"handle": h, "payload": {"send": ps, "sync": py}, "closure": {"send": fs, "sync": fy},
                             "rustc_send": s, "rustc_sync": y, "expected_send": exp, "expected_sync": 0})
    if mism:
        violations.append(({"stage": "oracle", "property": pid, "violation": mism[0], "all": mism[:10],
                            "how_to_replay": "cd /verif/probe && cargo build --offline && ./target/debug/probe (columns: handle payloadSend payloadSync closureSend closureSync isSend isSync)"}, ""))
    elif not pr["ok"] or not built:
        violations.append(({"stage": "proof" if built else "probe-build",
                            "no_longer_checks": pr["detail"] if built else "the probe crate does not compile against /repo: " + b.stdout[-800:],
                            "theorems": pr["theorems"]}, "no-failing-input-found"))
    evid["coverage"] = {
        "obligations": pr["obligations"], "discharged": pr["discharged"], "checker_cmd": pr.get("checker_cmd", ""),
        "theorems": pr["theorems"], "axioms_reported": pr["axioms"],
        "trusted_base": [
            "Coq 8.16.1 kernel; vm_compute decides the finite domain (12 handles x 4 payload classes x 4 closure classes), lifted by forallb_forall",
            "axioms: none (Closed under the global context)",
            "translator tools/traitscan.py (regex/recursive-descent reading of struct fields and unsafe impl headers) regenerates coq/theories/Gen/Handles.v from /repo/src on every run",
            "TraitModel.v: the std auto-trait rules for raw pointers, references, Cell, Arc, Mutex, PhantomData, Vec/VecDeque/Option/Box, dyn Trait; explicit impls replace auto-derivation",
            "rustc's trait solver as the implementation side (probe crate, one instantiation per well-formed combination)",
            "reduction of 'all payload types' to the four (Send,Sync) classes relies on the parametricity of trait resolution",
        ],
        "evaluations": len(rows), "distinct_nontrivial": len(set(rows)),
        "rule": "every well-formed (handle, payload class, closure class) instantiation is compiled by rustc and compared with the table the theorem proves; distinct = different instantiations",
        "samples": rows[:6] + rows[-3:], "exhaustive": True,
        "traces_validated_against_impl": len(rows) - len(mism),
        "regenerated_model_from_source": regenerated,
    }
    evid["assumptions"] = ["well-formedness: BroadcastUniReceiver and BroadcastFutUniReceiver exist only for T: Sync (their struct bounds)"]
    return finish(pid, evid, violations, known_lines, t0)

CUSTOM["C19"] = c19_engine
PROPS["C19"] = {"custom": True, "gens": [], "oracles": []}
