#!/usr/bin/env python3
"""runscn.py file.scn [oracle ...] [-v]: run scenario file(s) on the model and on the real code,
report divergence and oracle verdicts (development / replay helper)."""
import sys, os
HERE = os.path.dirname(os.path.abspath(__file__))
sys.path.insert(0, HERE)
import corr, oracle, propcfg

def main():
    args = [a for a in sys.argv[1:] if a != "-v"]
    verbose = "-v" in sys.argv
    scns = propcfg.load_scn_file(args[0])
    res = corr.run_all(scns, os.path.join(propcfg.ROOT, "work", "runscn"), brief=False, jobs=1)
    for d in res:
        print("scenario", d["name"], "steps", d["steps"], "diverge", d["diverge"], "model_end", d["model_end"].get("outcome"),
              "real_end", (d["real_end"] or {}).get("outcome"))
        rl = d.get("real_lines") or []
        if verbose:
            ml = d["model_lines"]
            for i in range(max(len(ml), len(rl))):
                a = ml[i] if i < len(ml) else ""
                b = rl[i] if i < len(rl) else ""
                if (a and a[0].isdigit()) or (b and b[0].isdigit()):
                    print("%s %-90s | %s" % (" " if a == b else "!", a[:90], b[:90] if a != b else ""))
        h = oracle.Hist(d["scn"], oracle.parse_trace(rl), d["real_end"], propcfg.cap_n(d["scn"].cap))
        for o in args[1:]:
            for v in propcfg.ORACLES[o](h):
                print("ORACLE", o, v)
        print("kc_f11", h.kc_f11, "max_groups", h.max_groups, "end", d["real_end"])

if __name__ == "__main__":
    main()
